(* C18: farthest-first clustering with the -inf self-distance trick, nearest-centre partition, per-cluster strict-< scan. *)
From Coq Require Import List QArith Qabs Bool Arith Lia Lra Psatz.
From LV Require Import Model.KCenter.
Import ListNotations.
Open Scope Q_scope.

(* ------------------------------------------------------------------ order facts *)
Lemma Qltb_lt x y : Qltb x y = true <-> x < y.
Proof.
  unfold Qltb. rewrite negb_true_iff. split.
  - intros H. destruct (Qlt_le_dec x y) as [L|L]; [exact L|]. apply Qle_bool_iff in L. congruence.
  - intros H. destruct (Qle_bool y x) eqn:E; [|reflexivity]. apply Qle_bool_iff in E. exfalso. apply (Qlt_not_le _ _ H E).
Qed.
Lemma Qltb_ge x y : Qltb x y = false <-> y <= x.
Proof. unfold Qltb. rewrite negb_false_iff. apply Qle_bool_iff. Qed.

Lemma Qltb_asym x y : Qltb x y = true -> Qltb y x = false.
Proof. rewrite Qltb_lt, Qltb_ge. apply Qlt_le_weak. Qed.
Lemma Qltb_ntrans x y z : Qltb x y = false -> Qltb y z = false -> Qltb x z = false.
Proof. rewrite !Qltb_ge. intros A B. eapply Qle_trans; eassumption. Qed.

Lemma xltb_asym a b : xltb a b = true -> xltb b a = false.
Proof. destruct a, b; simpl; try congruence; try reflexivity. apply Qltb_asym. Qed.
Lemma xltb_ntrans a b c : xltb a b = false -> xltb b c = false -> xltb a c = false.
Proof. destruct a, b, c; simpl; try congruence; try reflexivity. apply Qltb_ntrans. Qed.

Lemma vltb_asym a b : vltb a b = true -> vltb b a = false.
Proof. destruct a, b; simpl; try congruence; try reflexivity. apply Qltb_asym. Qed.
Lemma vltb_ntrans a b c : vltb a b = false -> vltb b c = false -> vltb a c = false.
Proof. destruct a, b, c; simpl; try congruence; try reflexivity. apply Qltb_ntrans. Qed.
Lemma vltb_irrefl a : vltb a a = false.
Proof. destruct (vltb a a) eqn:E; [|reflexivity]. rewrite (vltb_asym _ _ E) in E. discriminate. Qed.
(* a < b <= c gives a < c *)
Lemma vltb_lt_le_trans a b c : vltb a b = true -> vltb c b = false -> vltb a c = true.
Proof. intros H1 H2. destruct (vltb a c) eqn:E; [reflexivity|]. rewrite (vltb_ntrans _ _ _ E H2) in H1. discriminate. Qed.

Lemma Qminb_le_l a b : Qminb a b <= a.
Proof. unfold Qminb. destruct (Qle_bool a b) eqn:E; [apply Qle_refl|]. apply Qlt_le_weak, Qltb_lt. unfold Qltb. rewrite E. reflexivity. Qed.
Lemma Qminb_le_r a b : Qminb a b <= b.
Proof. unfold Qminb. destruct (Qle_bool a b) eqn:E; [apply Qle_bool_iff; exact E|apply Qle_refl]. Qed.
Lemma Qminb_cases a b : Qminb a b = a \/ Qminb a b = b.
Proof. unfold Qminb. destruct (Qle_bool a b); auto. Qed.
Lemma Qmaxb_ge_l a b : a <= Qmaxb a b.
Proof. unfold Qmaxb. destruct (Qle_bool a b) eqn:E; [apply Qle_bool_iff; exact E|apply Qle_refl]. Qed.
Lemma Qmaxb_ge_r a b : b <= Qmaxb a b.
Proof. unfold Qmaxb. destruct (Qle_bool a b) eqn:E; [apply Qle_refl|]. apply Qlt_le_weak, Qltb_lt. unfold Qltb. rewrite E. reflexivity. Qed.
Lemma Qmaxb_cases a b : Qmaxb a b = a \/ Qmaxb a b = b.
Proof. unfold Qmaxb. destruct (Qle_bool a b); auto. Qed.

(* ------------------------------------------------------------------ first-extremum semantics of argbest *)
Section ArgBest.
Context {A : Type} (better : A -> A -> bool).
Hypothesis asym : forall x y, better x y = true -> better y x = false.
Hypothesis ntrans : forall x y z, better x y = false -> better y z = false -> better x z = false.

Lemma better_irrefl x : better x x = false.
Proof. destruct (better x x) eqn:E; [|reflexivity]. rewrite (asym _ _ E) in E. discriminate. Qed.

Lemma better_trans_l x v best : better x v = false -> better x best = true -> better v best = true.
Proof. intros H1 H2. destruct (better v best) eqn:E; [reflexivity|]. rewrite (ntrans _ _ _ H1 E) in H2. discriminate. Qed.

Lemma argbest_from_props : forall l best bi i d,
  (bi < i)%nat ->
  let r := argbest_from better best bi i l in
  let v := if Nat.ltb r i then best else nth (r - i) l d in
  ((r = bi) \/ (i <= r < i + length l)%nat) /\ better best v = false /\
  (forall k, (k < length l)%nat -> better (nth k l d) v = false) /\
  (forall k, (k < length l)%nat -> (i + k < r)%nat -> better v (nth k l d) = true) /\
  ((i <= r)%nat -> better v best = true).
Proof.
  induction l as [|x l IH]; intros best bi i d Hbi; cbn [argbest_from length].
  - cbv zeta. assert (E : Nat.ltb bi i = true) by (apply Nat.ltb_lt; exact Hbi). rewrite E.
    repeat split; try (left; reflexivity); try apply better_irrefl; intros; lia.
  - destruct (better x best) eqn:Ex.
    + specialize (IH x i (S i) d (Nat.lt_succ_diag_r i)). cbv zeta in *.
      destruct IH as (Hr & Hv & Hall & Hfirst & Hlt).
      set (r := argbest_from better x i (S i) l) in *.
      assert (Hri : (i <= r)%nat) by (destruct Hr; lia).
      assert (El : Nat.ltb r i = false) by (apply Nat.ltb_ge; exact Hri). rewrite El.
      assert (Hval : (if Nat.ltb r (S i) then x else nth (r - S i) l d) = nth (r - i) (x :: l) d).
      { destruct (Nat.ltb r (S i)) eqn:E2.
        - apply Nat.ltb_lt in E2. replace (r - i)%nat with O by lia. reflexivity.
        - apply Nat.ltb_ge in E2. replace (r - i)%nat with (S (r - S i)) by lia. reflexivity. }
      rewrite <- Hval. repeat split.
      * right. destruct Hr; lia.
      * eapply ntrans; [apply asym; exact Ex|exact Hv].
      * intros [|k] Hk; [exact Hv|apply Hall; lia].
      * intros [|k] Hk Hkr; cbn [nth].
        -- apply Hlt. lia.
        -- apply Hfirst; lia.
      * intros _. eapply better_trans_l; [exact Hv|exact Ex].
    + specialize (IH best bi (S i) d (Nat.lt_lt_succ_r _ _ Hbi)). cbv zeta in *.
      destruct IH as (Hr & Hv & Hall & Hfirst & Hlt).
      set (r := argbest_from better best bi (S i) l) in *.
      destruct Hr as [Hr|Hr].
      * assert (E1 : Nat.ltb r i = true) by (apply Nat.ltb_lt; lia).
        assert (E2 : Nat.ltb r (S i) = true) by (apply Nat.ltb_lt; lia). rewrite E1. rewrite E2 in *.
        repeat split; try (left; exact Hr); try apply better_irrefl.
        -- intros [|k] Hk; [exact Ex|apply Hall; lia].
        -- intros k Hk Hkr. lia.
        -- intros; lia.
      * assert (E1 : Nat.ltb r i = false) by (apply Nat.ltb_ge; lia).
        assert (E2 : Nat.ltb r (S i) = false) by (apply Nat.ltb_ge; lia). rewrite E1. rewrite E2 in *.
        replace (r - i)%nat with (S (r - S i)) by lia. cbn [nth].
        assert (Hs : better (nth (r - S i) l d) best = true) by (apply Hlt; lia).
        repeat split.
        -- right. lia.
        -- exact Hv.
        -- intros [|k] Hk; [eapply ntrans; [exact Ex|exact Hv]|apply Hall; lia].
        -- intros [|k] Hk Hkr; cbn [nth].
           ++ destruct (better (nth (r - S i) l d) x) eqn:E; [reflexivity|]. rewrite (ntrans _ _ _ E Ex) in Hs. discriminate.
           ++ apply Hfirst; lia.
        -- intros _. exact Hs.
Qed.

(* r = argbest l is in range, nothing is better than l[r], and l[r] is better than everything before it *)
Theorem argbest_first l d : l <> [] ->
  let r := argbest better l in
  (r < length l)%nat /\ (forall k, (k < length l)%nat -> better (nth k l d) (nth r l d) = false) /\
  (forall k, (k < r)%nat -> better (nth r l d) (nth k l d) = true).
Proof.
  destruct l as [|x l]; [congruence|intros _]. unfold argbest.
  pose proof (argbest_from_props l x O 1%nat d Nat.lt_0_1) as H. cbv zeta in *.
  set (r := argbest_from better x O 1%nat l) in *. destruct H as (Hr & Hv & Hall & Hfirst & Hlt).
  destruct Hr as [Hr|Hr].
  - rewrite Hr in *. cbn [Nat.ltb Nat.leb nth length] in *. repeat split; [lia| |intros; lia].
    intros [|k] Hk; [apply better_irrefl|apply Hall; lia].
  - assert (E : Nat.ltb r 1 = false) by (apply Nat.ltb_ge; lia). rewrite E in *.
    destruct r as [|r]; [lia|]. replace (S r - 1)%nat with r in * by lia. cbn [nth length].
    repeat split; [lia| |].
    + intros [|k] Hk; [exact Hv|apply Hall; lia].
    + intros [|k] Hk; cbn [nth]; [apply Hlt; lia|apply Hfirst; lia].
Qed.
End ArgBest.

Lemma xargmax_first l : l <> [] ->
  let r := xargmax l in
  (r < length l)%nat /\ (forall k, (k < length l)%nat -> xltb (nth r l NInf) (nth k l NInf) = false) /\
  (forall k, (k < r)%nat -> xltb (nth k l NInf) (nth r l NInf) = true).
Proof.
  intros Hne. apply (argbest_first (fun x best => xltb best x)); [| |exact Hne].
  - intros x y. apply xltb_asym.
  - intros x y z H1 H2. eapply xltb_ntrans; eassumption.
Qed.
Lemma xargmin_first l : l <> [] ->
  let r := xargmin l in
  (r < length l)%nat /\ (forall k, (k < length l)%nat -> xltb (nth k l NInf) (nth r l NInf) = false) /\
  (forall k, (k < r)%nat -> xltb (nth r l NInf) (nth k l NInf) = true).
Proof.
  intros Hne. apply (argbest_first (fun x best => xltb x best)); [| |exact Hne].
  - intros x y. apply xltb_asym.
  - intros x y z H1 H2. eapply xltb_ntrans; eassumption.
Qed.
Lemma qargmin_first l : l <> [] ->
  let r := qargmin l in
  (r < length l)%nat /\ (forall k, (k < length l)%nat -> nth r l 0 <= nth k l 0) /\
  (forall k, (k < r)%nat -> nth r l 0 < nth k l 0).
Proof.
  intros Hne.
  destruct (argbest_first (fun x best => Qltb x best) (fun x y => Qltb_asym x y)
              (fun x y z H1 H2 => Qltb_ntrans x y z H1 H2) l 0 Hne) as (H1 & H2 & H3).
  split; [exact H1|]. split.
  - intros k Hk. apply Qltb_ge. apply H2. exact Hk.
  - intros k Hk. apply Qltb_lt. apply H3. exact Hk.
Qed.

Lemma vargmin_first l : l <> [] ->
  let r := vargmin l in
  (r < length l)%nat /\ (forall k, (k < length l)%nat -> vle (nth r l PInf) (nth k l PInf)) /\
  (forall k, (k < r)%nat -> vlt (nth r l PInf) (nth k l PInf)).
Proof.
  intros Hne. apply (argbest_first (fun x best => vltb x best)); [| |exact Hne].
  - intros x y. apply vltb_asym.
  - intros x y z H1 H2. eapply vltb_ntrans; eassumption.
Qed.

(* ------------------------------------------------------------------ list helpers *)
Lemma set_nth_length {A} (v : A) : forall l i, length (set_nth i v l) = length l.
Proof. induction l as [|x l IH]; intros [|i]; simpl; auto. Qed.
Lemma nth_set_nth {A} (v d : A) : forall l i j, (i < length l)%nat ->
  nth j (set_nth i v l) d = if Nat.eqb j i then v else nth j l d.
Proof.
  induction l as [|x l IH]; intros [|i] [|j] Hi; simpl in *; try lia; try reflexivity.
  apply IH. lia.
Qed.

Lemma map2_length {A} (g : A -> A -> A) : forall a b n, length a = n -> length b = n -> length (map2 g a b) = n.
Proof.
  induction a as [|x a IH]; intros [|y b] n Ha Hb; simpl in *; try lia.
  destruct n as [|n]; [lia|]. f_equal. apply IH; lia.
Qed.
Lemma nth_map2 {A} (g : A -> A -> A) d : forall a b t, (t < length a)%nat -> (t < length b)%nat ->
  nth t (map2 g a b) d = g (nth t a d) (nth t b d).
Proof. induction a as [|x a IH]; intros [|y b] [|t] Ha Hb; simpl in *; try lia; try reflexivity. apply IH; lia. Qed.

Lemma NoDup_snoc {A} (x : A) : forall l, NoDup l -> ~ In x l -> NoDup (l ++ [x]).
Proof.
  induction l as [|y l IH]; intros Hn Hx; simpl; [constructor; [intros []|constructor]|].
  inversion Hn as [|? ? Hy Hl]; subst. constructor.
  - intros Hin. apply in_app_or in Hin. destruct Hin as [Hin|[->|[]]]; [contradiction|]. apply Hx. left. reflexivity.
  - apply IH; [exact Hl|]. intros Hin. apply Hx. right. exact Hin.
Qed.

Lemma memb_In x l : memb x l = true <-> In x l.
Proof.
  unfold memb. rewrite existsb_exists. split.
  - intros (y & Hy & E). apply Nat.eqb_eq in E. subst. exact Hy.
  - intros H. exists x. split; [exact H|apply Nat.eqb_refl].
Qed.
Lemma memb_false x l : memb x l = false <-> ~ In x l.
Proof. rewrite <- memb_In. destruct (memb x l); split; congruence. Qed.

(* pigeonhole: fewer than n distinct indices below n leave one out *)
Lemma fresh_index (cs : list nat) n : (length cs < n)%nat -> exists t, (t < n)%nat /\ ~ In t cs.
Proof.
  intros Hlen. destruct (filter (fun t => negb (memb t cs)) (seq 0 n)) as [|t r] eqn:Ef.
  - exfalso. assert (Hincl : incl (seq 0 n) cs).
    { intros t Ht. destruct (memb t cs) eqn:E; [apply memb_In; exact E|].
      assert (Hin : In t (filter (fun t => negb (memb t cs)) (seq 0 n))) by (apply filter_In; rewrite E; auto).
      rewrite Ef in Hin. destruct Hin. }
    pose proof (NoDup_incl_length (seq_NoDup n 0) Hincl) as H. rewrite seq_length in H. lia.
  - assert (Hin : In t (filter (fun t => negb (memb t cs)) (seq 0 n))) by (rewrite Ef; left; reflexivity).
    apply filter_In in Hin. destruct Hin as [Hs Hm]. apply in_seq in Hs. apply negb_true_iff, memb_false in Hm.
    exists t. split; [lia|exact Hm].
Qed.

Lemma nodupb_NoDup l : nodupb l = true <-> NoDup l.
Proof.
  induction l as [|x l IH]; simpl; [split; [constructor|reflexivity]|].
  rewrite andb_true_iff, negb_true_iff, IH. change (existsb (Nat.eqb x) l) with (memb x l). rewrite memb_false. split.
  - intros [H1 H2]. constructor; assumption.
  - intros H. inversion H; subst. split; assumption.
Qed.

(* ------------------------------------------------------------------ squared distances *)
Lemma dist2_nonneg a b : 0 <= dist2 a b.
Proof. unfold dist2. apply Qmaxb_ge_l. Qed.
Lemma dot_self a : dot a a = sumsq a.
Proof. induction a as [|x a IH]; simpl; [reflexivity|rewrite IH; reflexivity]. Qed.
Lemma dist2_self a : dist2 a a == 0.
Proof.
  unfold dist2. rewrite dot_self. destruct (Qmaxb_cases 0 (sumsq a + sumsq a - 2 * sumsq a)) as [-> | ->]; [reflexivity|ring].
Qed.
(* the expanded form equals the sum of squared coordinate differences *)
Fixpoint sqdiff (a b : point) : Q := match a, b with x :: a', y :: b' => (x - y) * (x - y) + sqdiff a' b' | _, _ => 0 end.
Lemma Qsq_nonneg (z : Q) : 0 <= z * z.
Proof.
  destruct (Qlt_le_dec z 0) as [L|L].
  - setoid_replace (z * z) with ((- z) * (- z)) by ring. apply Qmult_le_0_compat; lra.
  - apply Qmult_le_0_compat; assumption.
Qed.
Lemma sqdiff_nonneg : forall a b, 0 <= sqdiff a b.
Proof.
  induction a as [|x a IH]; intros [|y b]; cbn [sqdiff]; try apply Qle_refl. specialize (IH b).
  pose proof (Qsq_nonneg (x - y)) as H. lra.
Qed.
Lemma expand_sqdiff : forall a b, length a = length b -> sumsq a + sumsq b - 2 * dot a b == sqdiff a b.
Proof.
  induction a as [|x a IH]; intros [|y b] Hl; cbn [sumsq dot sqdiff length] in *; try discriminate; [ring|].
  specialize (IH b ltac:(lia)). rewrite <- IH. ring.
Qed.
Lemma dist2_sqdiff a b : length a = length b -> dist2 a b == sqdiff a b.
Proof.
  intros Hl. unfold dist2. pose proof (expand_sqdiff a b Hl) as E. pose proof (sqdiff_nonneg a b) as N.
  unfold Qmaxb. destruct (Qle_bool 0 (sumsq a + sumsq b - 2 * dot a b)) eqn:Eb; [exact E|].
  exfalso. assert (Hle : 0 <= sumsq a + sumsq b - 2 * dot a b) by (rewrite E; exact N).
  apply Qle_bool_iff in Hle. congruence.
Qed.

(* ------------------------------------------------------------------ rows of the distance matrix *)
Definition entry (pts : list point) (c t : nat) : xr := if Nat.eqb t c then NInf else Fin (d2ix pts c t).

Lemma row_of_length pts f : length (row_of pts f) = length pts.
Proof. unfold row_of. rewrite set_nth_length, map_length. reflexivity. Qed.

Lemma nth_row_of pts f t : (f < length pts)%nat -> (t < length pts)%nat -> nth t (row_of pts f) NInf = entry pts f t.
Proof.
  intros Hf Ht. unfold row_of, entry. rewrite nth_set_nth by (rewrite map_length; exact Hf).
  destruct (Nat.eqb t f); [reflexivity|].
  rewrite nth_indep with (d' := Fin (dist2 (nth f pts []) [])) by (rewrite map_length; exact Ht).
  rewrite (map_nth (fun p => Fin (dist2 (nth f pts []) p))). reflexivity.
Qed.

Lemma fold_map2_length : forall (rs : list (list xr)) r n, length r = n -> (forall x, In x rs -> length x = n) ->
  length (fold_left (map2 xminb) rs r) = n.
Proof.
  induction rs as [|y rs IH]; intros r n Hr Hrs; simpl; [exact Hr|].
  apply IH; [apply map2_length; [exact Hr|apply Hrs; left; reflexivity]|intros x Hx; apply Hrs; right; exact Hx].
Qed.
Lemma nth_fold_map2 : forall (rs : list (list xr)) r n t, length r = n -> (forall x, In x rs -> length x = n) -> (t < n)%nat ->
  nth t (fold_left (map2 xminb) rs r) NInf = fold_left xminb (map (fun x => nth t x NInf) rs) (nth t r NInf).
Proof.
  induction rs as [|y rs IH]; intros r n t Hr Hrs Ht; simpl; [reflexivity|].
  assert (Hy : length y = n) by (apply Hrs; left; reflexivity).
  rewrite (IH (map2 xminb r y) n t); [|apply map2_length; assumption|intros x Hx; apply Hrs; right; exact Hx|exact Ht].
  rewrite nth_map2 by lia. reflexivity.
Qed.

Lemma xminb_fin a b : xminb (Fin a) (Fin b) = Fin (Qminb a b).
Proof. unfold xminb, Qminb. simpl. unfold Qltb. destruct (Qle_bool a b); reflexivity. Qed.

Lemma fold_entries pts t : forall r acc,
  fold_left xminb (map (fun c => entry pts c t) r) acc =
  match acc with
  | NInf => NInf
  | Fin a => if memb t r then NInf else Fin (fold_left (fun m c' => Qminb m (d2ix pts c' t)) r a)
  end.
Proof.
  induction r as [|c r IH]; intros acc; simpl; [destruct acc; reflexivity|].
  rewrite IH. unfold entry. destruct acc as [|a]; simpl.
  - destruct (Nat.eqb t c); reflexivity.
  - destruct (Nat.eqb t c) eqn:E; simpl; [reflexivity|]. unfold xminb. simpl. unfold Qminb, Qltb.
    destruct (Qle_bool a (d2ix pts c t)); simpl; reflexivity.
Qed.

(* column t of the running minimum: -inf on the chosen centres, otherwise the squared distance to the nearest one *)
Lemma nth_colmin pts cs t : cs <> [] -> (forall c, In c cs -> (c < length pts)%nat) -> (t < length pts)%nat ->
  nth t (colmin (map (row_of pts) cs)) NInf = if memb t cs then NInf else Fin (omind pts cs t).
Proof.
  intros Hne Hcs Ht. destruct cs as [|c r]; [congruence|]. cbn [map colmin].
  rewrite (nth_fold_map2 _ _ (length pts) t); [|apply row_of_length| |exact Ht].
  2:{ intros x Hx. apply in_map_iff in Hx. destruct Hx as (c' & <- & _). apply row_of_length. }
  rewrite map_map.
  rewrite (map_ext_in (fun x => nth t (row_of pts x) NInf) (fun c' => entry pts c' t)).
  2:{ intros c' Hc'. apply nth_row_of; [apply Hcs; right; exact Hc'|exact Ht]. }
  rewrite nth_row_of; [|apply Hcs; left; reflexivity|exact Ht].
  rewrite fold_entries. unfold entry, omind, mind. cbn [memb existsb].
  change (existsb (Nat.eqb t) r) with (memb t r).
  destruct (Nat.eqb t c); simpl; reflexivity.
Qed.

Lemma colmin_length pts cs : cs <> [] -> length (colmin (map (row_of pts) cs)) = length pts.
Proof.
  intros Hne. destruct cs as [|c r]; [congruence|]. cbn [map colmin]. apply fold_map2_length; [apply row_of_length|].
  intros x Hx. apply in_map_iff in Hx. destruct Hx as (c' & <- & _). apply row_of_length.
Qed.

(* omind is the least squared distance to a listed centre *)
Lemma omind_le pts cs t c : In c cs -> omind pts cs t <= d2ix pts c t.
Proof.
  unfold omind, mind. destruct cs as [|c0 r]; [intros []|].
  assert (G : forall r a, fold_left (fun m c' => Qminb m (d2ix pts c' t)) r a <= a /\
                          (In c r -> fold_left (fun m c' => Qminb m (d2ix pts c' t)) r a <= d2ix pts c t)).
  { induction r0 as [|x r0 IH]; intros a; simpl; [split; [apply Qle_refl|intros []]|].
    destruct (IH (Qminb a (d2ix pts x t))) as [I1 I2]. split.
    - eapply Qle_trans; [exact I1|apply Qminb_le_l].
    - intros [->|Hin]; [eapply Qle_trans; [exact I1|apply Qminb_le_r]|apply I2; exact Hin]. }
  intros [->|Hin]; [exact (proj1 (G r (d2ix pts c t)))|exact (proj2 (G r (d2ix pts c0 t)) Hin)].
Qed.
Lemma omind_attained pts cs t : cs <> [] -> exists c, In c cs /\ omind pts cs t = d2ix pts c t.
Proof.
  unfold omind, mind. destruct cs as [|c0 r]; [congruence|intros _].
  assert (G : forall r a, fold_left (fun m c' => Qminb m (d2ix pts c' t)) r a = a \/
                          exists c, In c r /\ fold_left (fun m c' => Qminb m (d2ix pts c' t)) r a = d2ix pts c t).
  { induction r0 as [|x r0 IH]; intros a; simpl; [left; reflexivity|].
    destruct (IH (Qminb a (d2ix pts x t))) as [I|(c & Hc & I)].
    - rewrite I. destruct (Qminb_cases a (d2ix pts x t)) as [-> | ->]; [left; reflexivity|right; exists x; auto].
    - right. exists c. auto. }
  destruct (G r (d2ix pts c0 t)) as [E|(c & Hc & E)]; [exists c0; split; [left; reflexivity|exact E]|exists c; split; [right; exact Hc|exact E]].
Qed.

(* ------------------------------------------------------------------ the farthest-first loop *)
Definition next (pts : list point) (cs : list nat) : nat := xargmax (colmin (map (row_of pts) cs)).
Fixpoint grow (pts : list point) (fuel : nat) (cs : list nat) : list nat :=
  match fuel with O => cs | S fuel' => grow pts fuel' (cs ++ [next pts cs]) end.

Lemma kc_loop_grow pts : forall fuel f rows centres prev,
  centres = prev ++ [f] -> rows = map (row_of pts) prev ->
  kc_loop fuel pts f rows centres = (grow pts fuel centres, map (row_of pts) (grow pts fuel centres)).
Proof.
  induction fuel as [|fuel IH]; intros f rows centres prev Hc Hr; cbn [kc_loop grow].
  - subst. rewrite map_app. reflexivity.
  - assert (E : rows ++ [row_of pts f] = map (row_of pts) centres) by (subst; rewrite map_app; reflexivity).
    rewrite E. fold (next pts centres). apply (IH _ _ _ centres); [reflexivity|reflexivity].
Qed.

(* what one greedy step guarantees about the chosen index c given the centres `pre` chosen so far *)
Definition step_ok (pts : list point) (pre : list nat) (c : nat) : Prop :=
  (c < length pts)%nat /\ ~ In c pre /\
  (forall t, (t < length pts)%nat -> ~ In t pre -> omind pts pre t <= omind pts pre c) /\
  (forall t, (t < c)%nat -> ~ In t pre -> omind pts pre t < omind pts pre c).

Definition good (pts : list point) (cs : list nat) : Prop :=
  cs <> [] /\ NoDup cs /\ (forall c, In c cs -> (c < length pts)%nat).

Lemma next_ok pts cs : good pts cs -> (length cs < length pts)%nat -> step_ok pts cs (next pts cs).
Proof.
  intros (Hne & Hnd & Hin) Hlen. unfold next.
  set (col := colmin (map (row_of pts) cs)).
  assert (Hcl : length col = length pts) by (apply colmin_length; exact Hne).
  assert (Hcol : forall t, (t < length pts)%nat -> nth t col NInf = if memb t cs then NInf else Fin (omind pts cs t))
    by (intros t Ht; apply nth_colmin; assumption).
  destruct (fresh_index cs (length pts) Hlen) as (t0 & Ht0 & Hfresh).
  assert (Hcne : col <> []) by (intros E; rewrite E in Hcl; simpl in Hcl; lia).
  destruct (xargmax_first col Hcne) as (Hr & Hmax & Hfirst). set (r := xargmax col) in *.
  rewrite Hcl in Hr, Hmax.
  assert (Hrn : memb r cs = false).
  { destruct (memb r cs) eqn:E; [|reflexivity]. specialize (Hmax t0 Ht0).
    rewrite (Hcol r Hr), E, (Hcol t0 Ht0) in Hmax. apply memb_false in Hfresh. rewrite Hfresh in Hmax. discriminate. }
  split; [exact Hr|]. split; [apply memb_false; exact Hrn|]. split.
  - intros t Ht Hnt. specialize (Hmax t Ht). rewrite (Hcol r Hr), Hrn, (Hcol t Ht) in Hmax.
    apply memb_false in Hnt. rewrite Hnt in Hmax. simpl in Hmax. apply Qltb_ge. exact Hmax.
  - intros t Htr Hnt. specialize (Hfirst t Htr). rewrite (Hcol r Hr), Hrn, (Hcol t ltac:(lia)) in Hfirst.
    apply memb_false in Hnt. rewrite Hnt in Hfirst. simpl in Hfirst. apply Qltb_lt. exact Hfirst.
Qed.

Lemma grow_ok pts : forall fuel cs, good pts cs -> (length cs + fuel <= length pts)%nat ->
  good pts (grow pts fuel cs) /\
  exists rest, grow pts fuel cs = cs ++ rest /\ length rest = fuel /\
               forall j, (j < fuel)%nat -> step_ok pts (cs ++ firstn j rest) (nth j rest O).
Proof.
  induction fuel as [|fuel IH]; intros cs Hg Hlen; cbn [grow].
  - split; [exact Hg|]. exists []. rewrite app_nil_r. split; [reflexivity|]. split; [reflexivity|]. intros j Hj. lia.
  - pose proof (next_ok pts cs Hg ltac:(lia)) as Hs. set (x := next pts cs) in *.
    destruct Hg as (Hne & Hnd & Hin). destruct Hs as (Hx & Hnx & Hfar & Hfst).
    assert (Hg' : good pts (cs ++ [x])).
    { split; [destruct cs; discriminate|]. split; [apply NoDup_snoc; assumption|].
      intros c Hc. apply in_app_or in Hc. destruct Hc as [Hc|[<-|[]]]; [apply Hin; exact Hc|exact Hx]. }
    destruct (IH (cs ++ [x]) Hg' ltac:(rewrite app_length; simpl; lia)) as (Hgood & rest & E & Hl & Hsteps).
    split; [exact Hgood|]. exists (x :: rest). split; [rewrite E, <- app_assoc; reflexivity|]. split; [simpl; lia|].
    intros [|j] Hj; cbn [firstn nth].
    + rewrite app_nil_r. repeat split; assumption.
    + specialize (Hsteps j ltac:(lia)). rewrite <- app_assoc in Hsteps. exact Hsteps.
Qed.

(* centres: k of them, the first is the given one, pairwise distinct, in range; every later centre is the FIRST index,
   among those not yet chosen, whose squared distance to the nearest chosen centre is maximal *)
Theorem k_center_centres pts first k cs part :
  k_center pts first k = Some (cs, part) ->
  length cs = k /\ hd O cs = first /\ NoDup cs /\ (forall c, In c cs -> (c < length pts)%nat) /\
  forall i, (1 <= i < k)%nat -> step_ok pts (firstn i cs) (nth i cs O).
Proof.
  unfold k_center. destruct (Nat.ltb 0 k && Nat.ltb k (length pts) && Nat.ltb first (length pts)) eqn:G; [|discriminate].
  apply andb_true_iff in G. destruct G as [G G3]. apply andb_true_iff in G. destruct G as [G1 G2].
  apply Nat.ltb_lt in G1, G2, G3.
  rewrite (kc_loop_grow pts (k - 1) first [] [first] [] eq_refl eq_refl). intros E. injection E as E1 E2. subst cs.
  assert (Hg : good pts [first]).
  { split; [discriminate|]. split; [constructor; [intros []|constructor]|]. intros c [<-|[]]. exact G3. }
  destruct (grow_ok pts (k - 1) [first] Hg ltac:(simpl; lia)) as ((Hne & Hnd & Hin) & rest & E & Hl & Hsteps).
  split; [rewrite E; simpl; lia|]. split; [rewrite E; reflexivity|]. split; [exact Hnd|]. split; [exact Hin|].
  intros i Hi. rewrite E. destruct i as [|i]; [lia|]. cbn [app nth firstn]. apply (Hsteps i). lia.
Qed.

Theorem k_center_total pts first k : (0 < k < length pts)%nat -> (first < length pts)%nat -> k_center pts first k <> None.
Proof.
  intros [H1 H2] H3. unfold k_center.
  apply Nat.ltb_lt in H1, H2, H3. rewrite H1, H2, H3. cbn [andb].
  destruct (kc_loop (k - 1) pts first [] [first]). discriminate.
Qed.

(* ------------------------------------------------------------------ the partition *)
Lemma column_entries pts cs t : (forall c, In c cs -> (c < length pts)%nat) -> (t < length pts)%nat ->
  column (map (row_of pts) cs) t = map (fun c => entry pts c t) cs.
Proof.
  intros Hin Ht. unfold column. rewrite map_map. apply map_ext_in. intros c Hc. apply nth_row_of; [apply Hin; exact Hc|exact Ht].
Qed.

Lemma nth_entries pts cs t j : (j < length cs)%nat -> nth j (map (fun c => entry pts c t) cs) NInf = entry pts (nth j cs O) t.
Proof.
  intros Hj. rewrite nth_indep with (d' := entry pts O t) by (rewrite map_length; exact Hj).
  apply (map_nth (fun c => entry pts c t)).
Qed.

(* partition: one label < k per observation; a centre is in its own cluster; every observation's centre is a nearest
   centre; for a non-centre it is the first nearest centre *)
Theorem k_center_partition pts first k cs part :
  k_center pts first k = Some (cs, part) ->
  length part = length pts /\
  forall t, (t < length pts)%nat ->
    let c := nth t part O in
    (c < k)%nat /\
    (forall i, (i < k)%nat -> nth i cs O = t -> c = i) /\
    (forall j, (j < k)%nat -> d2ix pts (nth c cs O) t <= d2ix pts (nth j cs O) t) /\
    (~ In t cs -> forall j, (j < c)%nat -> d2ix pts (nth c cs O) t < d2ix pts (nth j cs O) t).
Proof.
  intros Hk. destruct (k_center_centres pts first k cs part Hk) as (Hlen & Hhd & Hnd & Hin & _).
  revert Hk. unfold k_center.
  destruct (Nat.ltb 0 k && Nat.ltb k (length pts) && Nat.ltb first (length pts)) eqn:G; [|discriminate].
  apply andb_true_iff in G. destruct G as [G G3]. apply andb_true_iff in G. destruct G as [G1 G2].
  apply Nat.ltb_lt in G1, G2, G3.
  rewrite (kc_loop_grow pts (k - 1) first [] [first] [] eq_refl eq_refl). intros E. injection E as E1 E2.
  rewrite E1 in E2. subst part. split; [rewrite map_length, seq_length; reflexivity|].
  intros t Ht. cbv zeta.
  rewrite nth_indep with (d' := xargmin (column (map (row_of pts) cs) O)) by (rewrite map_length, seq_length; exact Ht).
  rewrite (map_nth (fun t => xargmin (column (map (row_of pts) cs) t))). rewrite seq_nth by exact Ht. cbn [plus].
  rewrite column_entries by assumption.
  set (col := map (fun c => entry pts c t) cs).
  assert (Hcl : length col = k) by (unfold col; rewrite map_length; exact Hlen).
  assert (Hcne : col <> []) by (intros E; rewrite E in Hcl; simpl in Hcl; lia).
  destruct (xargmin_first col Hcne) as (Hr & Hmin & Hfirst). set (r := xargmin col) in *.
  rewrite Hcl in Hr, Hmin.
  assert (Hent : forall j, (j < k)%nat -> nth j col NInf = entry pts (nth j cs O) t)
    by (intros j Hj; apply nth_entries; lia).
  split; [exact Hr|]. split; [|split].
  - intros i Hi Hci. specialize (Hmin i Hi). rewrite (Hent i Hi), (Hent r Hr) in Hmin. unfold entry in Hmin.
    rewrite Hci, Nat.eqb_refl in Hmin.
    destruct (Nat.eqb t (nth r cs O)) eqn:Er; [|simpl in Hmin; discriminate].
    apply Nat.eqb_eq in Er. apply (proj1 (NoDup_nth cs O) Hnd); [lia|lia|]. rewrite Hci. symmetry. exact Er.
  - intros j Hj. specialize (Hmin j Hj). rewrite (Hent j Hj), (Hent r Hr) in Hmin. unfold entry in Hmin.
    destruct (Nat.eqb t (nth r cs O)) eqn:Er.
    + apply Nat.eqb_eq in Er. rewrite <- Er. unfold d2ix at 1. rewrite dist2_self. apply dist2_nonneg.
    + destruct (Nat.eqb t (nth j cs O)); simpl in Hmin; [discriminate|]. apply Qltb_ge. exact Hmin.
  - intros Hnt j Hj. specialize (Hfirst j Hj). rewrite (Hent j ltac:(lia)), (Hent r Hr) in Hfirst. unfold entry in Hfirst.
    assert (N : forall i, (i < k)%nat -> Nat.eqb t (nth i cs O) = false).
    { intros i Hi. apply Nat.eqb_neq. intros ->. apply Hnt. apply nth_In. lia. }
    rewrite (N r Hr), (N j ltac:(lia)) in Hfirst. simpl in Hfirst. apply Qltb_lt. exact Hfirst.
Qed.

(* ------------------------------------------------------------------ the per-cluster strict-< scan *)
Section Scan.
Variable values : list xv.
Variable part : list nat.
Variable k : nat.
Hypothesis part_lt : forall t, (t < length part)%nat -> (nth t part O < k)%nat.
Let v (t : nat) : xv := nth t values PInf.

(* after the first m observations: entry c holds the first minimum of the values over the members of cluster c *)
Definition scan_inv (m : nat) (st : list (option (nat * xv))) : Prop :=
  length st = k /\
  forall c, (c < k)%nat ->
    match nth c st None with
    | None => forall t, (t < m)%nat -> nth t part O <> c
    | Some (b, x) => (b < m)%nat /\ nth b part O = c /\ x = v b /\
                     (forall t, (t < m)%nat -> nth t part O = c -> vle x (v t)) /\
                     (forall t, (t < b)%nat -> nth t part O = c -> vlt x (v t))
    end.

Lemma scan_step_inv m st : (m < length part)%nat -> scan_inv m st -> scan_inv (S m) (scan_step values st (m, nth m part O)).
Proof.
  intros Hm [Hl Hinv]. set (p := nth m part O). assert (Hp : (p < k)%nat) by (apply part_lt; exact Hm).
  unfold scan_step. fold (v m).
  assert (Hkeep : forall c, (c < k)%nat -> c <> p ->
            match nth c st None with
            | None => forall t, (t < S m)%nat -> nth t part O <> c
            | Some (b, x) => (b < S m)%nat /\ nth b part O = c /\ x = v b /\
                             (forall t, (t < S m)%nat -> nth t part O = c -> vle x (v t)) /\
                             (forall t, (t < b)%nat -> nth t part O = c -> vlt x (v t))
            end).
  { intros c Hc Hcp. specialize (Hinv c Hc). destruct (nth c st None) as [[b x]|].
    - destruct Hinv as (H1 & H2 & H3 & H4 & H5). repeat split; try assumption; [lia|].
      intros t Ht Htc. destruct (Nat.eq_dec t m) as [->|Hne]; [fold p in Htc; congruence|apply H4; [lia|exact Htc]].
    - intros t Ht. destruct (Nat.eq_dec t m) as [->|Hne]; [fold p; congruence|apply Hinv; lia]. }
  assert (Hnew : forall st', length st' = k ->
            (forall c, nth c st' None = if Nat.eqb c p then Some (m, v m) else nth c st None) ->
            (forall t, (t < m)%nat -> nth t part O = p -> vlt (v m) (v t)) -> scan_inv (S m) st').
  { intros st' Hl' Hn Hlt. split; [exact Hl'|]. intros c Hc. rewrite Hn. destruct (Nat.eqb c p) eqn:E.
    - apply Nat.eqb_eq in E. subst c. repeat split; [lia| |].
      + intros t Ht Htp. destruct (Nat.eq_dec t m) as [->|Hne]; [apply vltb_irrefl|]. apply vltb_asym. apply Hlt; [lia|exact Htp].
      + intros t Ht Htp. apply Hlt; assumption.
    - apply Nat.eqb_neq in E. apply Hkeep; assumption. }
  pose proof (Hinv p Hp) as Hpinv.
  destruct (nth p st None) as [[b x]|] eqn:Ep.
  - destruct Hpinv as (H1 & H2 & H3 & H4 & H5). destruct (vltb (v m) x) eqn:Ex.
    + apply Hnew; [rewrite set_nth_length; exact Hl|intros c; apply nth_set_nth; lia|].
      intros t Ht Htp. exact (vltb_lt_le_trans _ _ _ Ex (H4 t Ht Htp)).
    + split; [exact Hl|]. intros c Hc. destruct (Nat.eq_dec c p) as [->|Hne]; [|apply Hkeep; assumption].
      rewrite Ep. repeat split; try assumption; [lia|].
      intros t Ht Htp. destruct (Nat.eq_dec t m) as [->|Hne]; [exact Ex|apply H4; [lia|exact Htp]].
  - apply Hnew; [rewrite set_nth_length; exact Hl|intros c; apply nth_set_nth; lia|].
    intros t Ht Htp. exfalso. apply (Hpinv t Ht Htp).
Qed.

Lemma scan_gen : forall l m st, scan_inv m st -> (m + length l = length part)%nat ->
  (forall j, (j < length l)%nat -> nth j l O = nth (m + j) part O) ->
  scan_inv (length part) (fold_left (scan_step values) (combine (seq m (length l)) l) st).
Proof.
  induction l as [|p l IH]; intros m st Hinv Hlen Hl; cbn [length seq combine fold_left].
  - simpl in Hlen. rewrite Nat.add_0_r in Hlen. subst m. exact Hinv.
  - cbn [length] in Hlen. apply IH.
    + pose proof (Hl O ltac:(simpl; lia)) as E. cbn [nth] in E. rewrite Nat.add_0_r in E. rewrite E.
      apply scan_step_inv; [lia|exact Hinv].
    + lia.
    + intros j Hj. specialize (Hl (S j) ltac:(simpl; lia)). cbn [nth] in Hl. rewrite Hl. f_equal. lia.
Qed.

Lemma scan_init : scan_inv 0 (repeat None k).
Proof.
  split; [apply repeat_length|]. intros c Hc.
  rewrite nth_repeat. intros t Ht. lia.
Qed.

Lemma cluster_scan_inv : scan_inv (length part) (cluster_scan values part k).
Proof. unfold cluster_scan. apply scan_gen; [exact scan_init|reflexivity|intros j Hj; reflexivity]. Qed.
End Scan.

Lemma flat_somes : forall (st : list (option (nat * xv))),
  (forall c, (c < length st)%nat -> nth c st None <> None) ->
  flat_map (fun o => match o with Some (i, _) => [i] | None => [] end) st =
  map (fun o => match o with Some (i, _) => i | None => O end) st.
Proof.
  induction st as [|o st IH]; intros H; [reflexivity|]. cbn [flat_map map].
  rewrite IH by (intros c Hc; apply (H (S c)); simpl; lia).
  pose proof (H O ltac:(simpl; lia)) as H0. cbn [nth] in H0. destruct o as [[i x]|]; [reflexivity|congruence].
Qed.

(* ------------------------------------------------------------------ the endpoint body *)
Theorem best_assignments_spec values spts k :
  length values = length spts -> (2 <= k < length spts)%nat ->
  exists cs part best,
    k_center spts (vargmin values) k = Some (cs, part) /\
    best_assignments values spts k = Some best /\
    length best = k /\ NoDup best /\ (forall i, In i best -> (i < length spts)%nat) /\
    hd O best = vargmin values /\
    forall c, (c < k)%nat ->
      let b := nth c best O in
      nth b part O = c /\
      (forall t, (t < length spts)%nat -> nth t part O = c -> vle (nth b values PInf) (nth t values PInf)) /\
      (forall t, (t < b)%nat -> nth t part O = c -> vlt (nth b values PInf) (nth t values PInf)).
Proof.
  intros Hlv [Hk2 Hkn]. set (n := length spts) in *.
  assert (Hvne : values <> []) by (intros E; rewrite E in Hlv; simpl in Hlv; lia).
  destruct (vargmin_first values Hvne) as (Hf & Hfmin & Hffirst). set (f := vargmin values) in *.
  rewrite Hlv in Hf, Hfmin.
  destruct (k_center spts f k) as [[cs part]|] eqn:Ekc; [|exfalso; revert Ekc; apply k_center_total; unfold n in *; lia].
  destruct (k_center_centres spts f k cs part Ekc) as (Hcl & Hhd & Hnd & Hin & _).
  destruct (k_center_partition spts f k cs part Ekc) as (Hpl & Hpart). fold n in Hpl, Hpart.
  assert (Hplt : forall t, (t < length part)%nat -> (nth t part O < k)%nat) by (intros t Ht; apply Hpart; lia).
  destruct (cluster_scan_inv values part k Hplt) as [Hsl Hinv]. rewrite Hpl in Hinv.
  set (st := cluster_scan values part k) in *.
  (* every cluster holds its centre, so every entry is filled *)
  assert (Hown : forall c, (c < k)%nat -> (nth c cs O < n)%nat /\ nth (nth c cs O) part O = c).
  { intros c Hc. assert (Hcn : (nth c cs O < n)%nat) by (apply Hin, nth_In; lia). split; [exact Hcn|].
    apply (proj1 (proj2 (Hpart _ Hcn)) c Hc eq_refl). }
  assert (Hsome : forall c, (c < k)%nat -> exists b x, nth c st None = Some (b, x)).
  { intros c Hc. specialize (Hinv c Hc). destruct (nth c st None) as [[b x]|]; [eauto|].
    exfalso. destruct (Hown c Hc) as [H1 H2]. apply (Hinv _ H1 H2). }
  set (proj := fun o : option (nat * xv) => match o with Some (i, _) => i | None => O end).
  assert (Hflat : flat_map (fun o => match o with Some (i, _) => [i] | None => [] end) st = map proj st).
  { apply flat_somes. intros c Hc. rewrite Hsl in Hc. destruct (Hsome c Hc) as (b & x & E). rewrite E. discriminate. }
  set (best := map proj st).
  assert (Hbl : length best = k) by (unfold best; rewrite map_length; exact Hsl).
  assert (Hnb : forall c, (c < k)%nat -> nth c best O = proj (nth c st None)).
  { intros c Hc. unfold best. change O with (proj None). apply map_nth. }
  assert (Hspec : forall c, (c < k)%nat ->
            let b := nth c best O in
            (b < n)%nat /\ nth b part O = c /\
            (forall t, (t < n)%nat -> nth t part O = c -> vle (nth b values PInf) (nth t values PInf)) /\
            (forall t, (t < b)%nat -> nth t part O = c -> vlt (nth b values PInf) (nth t values PInf))).
  { intros c Hc. cbv zeta. rewrite (Hnb c Hc). specialize (Hinv c Hc). destruct (Hsome c Hc) as (b & x & E).
    rewrite E in *. cbn [proj]. destruct Hinv as (H1 & H2 & H3 & H4 & H5). subst x. repeat split; assumption. }
  assert (Hndb : NoDup best).
  { apply (proj2 (NoDup_nth best O)). intros i j Hi Hj E. rewrite Hbl in Hi, Hj.
    destruct (Hspec i Hi) as (_ & Pi & _). destruct (Hspec j Hj) as (_ & Pj & _). cbv zeta in *. rewrite E in Pi. congruence. }
  assert (Hrange : forall i, In i best -> (i < n)%nat).
  { intros i Hi. destruct (In_nth best i O Hi) as (c & Hc & <-). rewrite Hbl in Hc. apply (Hspec c Hc). }
  exists cs, part, best. split; [reflexivity|]. split.
  - unfold best_assignments. assert (E1 : Nat.ltb 1 k = true) by (apply Nat.ltb_lt; lia). rewrite E1. cbn [negb].
    fold f. rewrite Ekc. fold st. rewrite Hflat. fold best. rewrite Hbl, Hsl, Nat.eqb_refl.
    rewrite (proj2 (nodupb_NoDup best) Hndb).
    assert (E3 : forallb (fun i => Nat.ltb i (length spts)) best = true).
    { apply forallb_forall. intros i Hi. apply Nat.ltb_lt. apply Hrange. exact Hi. }
    rewrite E3. reflexivity.
  - split; [exact Hbl|]. split; [exact Hndb|]. split; [exact Hrange|]. split.
    + (* the first entry is the first minimum of all values: it heads cluster 0, whose centre it is *)
      destruct (Hspec O ltac:(lia)) as (Hb & Hbp & Hbmin & Hbfirst). cbv zeta in *.
      assert (E0 : hd O best = nth O best O) by (destruct best; reflexivity). rewrite E0.
      set (b := nth O best O) in *.
      assert (Hfp : nth f part O = O).
      { apply (proj1 (proj2 (Hpart f Hf)) O ltac:(lia)). destruct cs; [simpl in Hcl; lia|exact Hhd]. }
      destruct (Nat.lt_trichotomy b f) as [L|[L|L]]; [|exact L|].
      * exfalso. pose proof (Hffirst b L) as H1. pose proof (Hbmin f Hf Hfp) as H2. unfold vlt, vle in H1, H2. congruence.
      * exfalso. pose proof (Hbfirst f L Hfp) as H1. pose proof (Hfmin b Hb) as H2. unfold vlt, vle in H1, H2. congruence.
    + intros c Hc. destruct (Hspec c Hc) as (H1 & H2 & H3 & H4). cbv zeta. repeat split; assumption.
Qed.

(* ------------------------------------------------------------------ the whole endpoint *)
Lemma all_some_length {A} : forall (l : list (option A)) r, all_some l = Some r -> length r = length l.
Proof.
  induction l as [|o l IH]; intros r H; simpl in H; [injection H as <-; reflexivity|].
  destruct o as [x|]; [|discriminate]. destruct (all_some l) as [r'|]; [|discriminate]. injection H as <-.
  simpl. f_equal. apply IH. reflexivity.
Qed.

Lemma scaled_values_length maximize vals fails : length vals = length fails ->
  length (scaled_values maximize vals fails) = length vals.
Proof.
  intros Hl. unfold scaled_values. destruct (select (map negb fails) vals).
  - rewrite map_length, combine_length. lia.
  - destruct (scale_mid (q :: l)). rewrite map_length, combine_length. lia.
Qed.

Lemma masked_values_length scaled fails : length fails = length scaled -> length (masked_values scaled fails) = length scaled.
Proof. intros Hl. unfold masked_values. rewrite map_length, combine_length. lia. Qed.

Theorem view_spec cs tgt points vals fails maximize k ohs :
  all_some (map (to_one_hot cs) points) = Some ohs ->
  length vals = length points -> length fails = length points -> (2 <= k < length points)%nat ->
  let mv := masked_values (scaled_values maximize vals fails) fails in
  let spts := map (search_point cs tgt) ohs in
  exists centres part best,
    k_center spts (vargmin mv) k = Some (centres, part) /\
    view cs tgt points vals fails maximize k = Some best /\
    length best = k /\ NoDup best /\ (forall i, In i best -> (i < length points)%nat) /\
    hd O best = vargmin mv /\
    forall c, (c < k)%nat ->
      let b := nth c best O in
      nth b part O = c /\
      (forall t, (t < length points)%nat -> nth t part O = c -> vle (nth b mv PInf) (nth t mv PInf)) /\
      (forall t, (t < b)%nat -> nth t part O = c -> vlt (nth b mv PInf) (nth t mv PInf)).
Proof.
  intros Hoh Hlv Hlf Hk mv spts.
  assert (Hn : length spts = length points).
  { unfold spts. rewrite map_length, (all_some_length _ _ Hoh), map_length. reflexivity. }
  assert (Hsv : length mv = length spts).
  { unfold mv. rewrite masked_values_length; rewrite scaled_values_length; lia. }
  destruct (best_assignments_spec mv spts k Hsv ltac:(lia)) as (centres & part & best & H1 & H2 & H3 & H4 & H5 & H6 & H7).
  exists centres, part, best. rewrite Hn in *. unfold view. rewrite Hoh. fold mv spts.
  repeat split; try assumption; apply H7; assumption.
Qed.

(* ------------------------------------------------------------------ the value stored with a failed observation is never read *)
Lemma overwrite_length : forall fails vals junk, length (overwrite fails vals junk) = length vals.
Proof.
  induction fails as [|f fs IH]; intros vals junk; [reflexivity|].
  destruct vals as [|v vs]; [reflexivity|]. cbn [overwrite length]. f_equal. apply IH.
Qed.

Lemma select_overwrite : forall fails vals junk,
  select (map negb fails) (overwrite fails vals junk) = select (map negb fails) vals.
Proof.
  induction fails as [|f fs IH]; intros vals junk; [reflexivity|].
  destruct vals as [|v vs]; [reflexivity|]. cbn [overwrite map select]. destruct f; cbn [negb]; rewrite IH; reflexivity.
Qed.

(* any row-wise function that does not look at the stored value of a failed row gives the same on both histories *)
Lemma map_combine_overwrite {B} (g : Q * bool -> B) : (forall x y, g (x, true) = g (y, true)) ->
  forall fails vals junk, map g (combine (overwrite fails vals junk) fails) = map g (combine vals fails).
Proof.
  intros Hg. induction fails as [|f fs IH]; intros vals junk.
  - destruct vals; reflexivity.
  - destruct vals as [|v vs]; [reflexivity|]. cbn [overwrite combine map]. rewrite IH. f_equal.
    destruct f; [apply Hg|reflexivity].
Qed.

Theorem scaled_values_overwrite (maximize : bool) vals fails junk :
  scaled_values maximize (overwrite fails vals junk) fails = scaled_values maximize vals fails.
Proof.
  unfold scaled_values. rewrite select_overwrite.
  destruct (select (map negb fails) vals) as [|q l].
  - apply map_combine_overwrite. intros x y. reflexivity.
  - destruct (scale_mid (q :: l)) as [s m]. apply map_combine_overwrite. intros x y. reflexivity.
Qed.

Theorem view_overwrite cs tgt points vals fails maximize k junk :
  view cs tgt points (overwrite fails vals junk) fails maximize k = view cs tgt points vals fails maximize k.
Proof. unfold view. rewrite scaled_values_overwrite. reflexivity. Qed.

(* the same for two histories given pointwise: equal lengths, equal values at every successful observation *)
Lemma overwrite_agree : forall fails vals vals',
  length vals = length fails -> length vals' = length fails ->
  (forall t, (t < length fails)%nat -> nth t fails true = false -> nth t vals 0 = nth t vals' 0) ->
  overwrite fails vals vals' = vals'.
Proof.
  induction fails as [|f fs IH]; intros vals vals' H1 H2 H.
  - destruct vals; [|discriminate]. destruct vals'; [reflexivity|discriminate].
  - destruct vals as [|v vs]; [discriminate|]. destruct vals' as [|w ws]; [discriminate|].
    cbn [overwrite hd tl]. f_equal.
    + destruct f; [reflexivity|]. apply (H O); [cbn [length]; lia|reflexivity].
    + apply IH; [simpl in H1; lia|simpl in H2; lia|].
      intros t Ht Hf. apply (H (S t)); [cbn [length]; lia|exact Hf].
Qed.

Theorem view_agree cs tgt points vals vals' fails maximize k :
  length vals = length fails -> length vals' = length fails ->
  (forall t, (t < length fails)%nat -> nth t fails true = false -> nth t vals 0 = nth t vals' 0) ->
  scaled_values maximize vals' fails = scaled_values maximize vals fails /\
  view cs tgt points vals' fails maximize k = view cs tgt points vals fails maximize k.
Proof.
  intros H1 H2 H. rewrite <- (overwrite_agree fails vals vals' H1 H2 H).
  split; [apply scaled_values_overwrite|apply view_overwrite].
Qed.

(* ------------------------------------------------------------------ the value scaling keeps the order of the successes *)
Lemma scale_positive nf : 0 < fst (scale_mid nf).
Proof.
  unfold scale_mid. set (mn := lmin nf). set (mx := lmax nf).
  destruct (Qltb ((mx - mn) * (1 # 2)) min_half_width) eqn:E1.
  - destruct (Qltb 1 (Qminb (Qabs mx) (Qabs mn))) eqn:E2; cbn [fst]; [|reflexivity].
    apply Qltb_lt in E2.
    assert (H : 1 < Qmaxb (Qabs mn) (Qabs mx)).
    { eapply Qlt_le_trans; [exact E2|]. eapply Qle_trans; [apply Qminb_le_r|apply Qmaxb_ge_l]. }
    unfold Qdiv. rewrite Qmult_1_l. apply Qinv_lt_0_compat. lra.
  - cbn [fst]. apply Qltb_ge in E1. unfold min_half_width, norm_factor in *.
    assert (H : 0 < mx - mn) by lra.
    unfold Qdiv. apply Qmult_lt_0_compat; [reflexivity|apply Qinv_lt_0_compat; exact H].
Qed.

(* with at least one success, every scaled value is negate * s * (w - m) for one s > 0 and one m, where w is the raw value
   of a success and the lie (the worst successful raw value) of a failure *)
Theorem scaled_values_affine (maximize : bool) vals fails :
  select (map negb fails) vals <> [] ->
  exists s m lie, 0 < s /\
    lie = (if maximize then lmin (select (map negb fails) vals) else lmax (select (map negb fails) vals)) /\
    scaled_values maximize vals fails =
    map (fun vf : Q * bool => (if maximize then Qopp 1 else 1) * s * ((if snd vf then lie else fst vf) - m)) (combine vals fails).
Proof.
  intros Hne. unfold scaled_values. destruct (select (map negb fails) vals) as [|q l] eqn:E; [congruence|].
  pose proof (scale_positive (q :: l)) as Hs. destruct (scale_mid (q :: l)) as [s m]. cbn [fst] in Hs.
  exists s, m, (if maximize then lmin (q :: l) else lmax (q :: l)). split; [exact Hs|]. split; [reflexivity|].
  apply map_ext. intros [x b]. cbn [fst snd]. destruct b; reflexivity.
Qed.

(* hence, between two successes, a smaller scaled value means a better raw value (smaller when minimising, larger when
   maximising), and equal raw values give equal scaled values *)
Lemma affine_order (neg s m a b : Q) : 0 < s -> (neg == 1 \/ neg == -(1)) ->
  (neg * s * (a - m) <= neg * s * (b - m) <-> neg * a <= neg * b).
Proof.
  intros Hs Hn.
  assert (E : forall x, neg * s * (x - m) == s * (neg * x - neg * m)) by (intros; ring).
  rewrite !E. rewrite Qmult_le_l by exact Hs. split; intros H; lra.
Qed.

(* ------------------------------------------------------------------ raw values behind the scaled values *)
Lemma fold_Qminb_le : forall r a, fold_left Qminb r a <= a /\ forall x, In x r -> fold_left Qminb r a <= x.
Proof.
  induction r as [|y r IH]; intros a; simpl; [split; [apply Qle_refl|intros x []]|].
  destruct (IH (Qminb a y)) as [I1 I2]. split.
  - eapply Qle_trans; [exact I1|apply Qminb_le_l].
  - intros x [->|Hx]; [eapply Qle_trans; [exact I1|apply Qminb_le_r]|apply I2; exact Hx].
Qed.
Lemma fold_Qminb_In : forall r a, fold_left Qminb r a = a \/ In (fold_left Qminb r a) r.
Proof.
  induction r as [|y r IH]; intros a; simpl; [left; reflexivity|].
  destruct (IH (Qminb a y)) as [I|I]; [|right; right; exact I].
  rewrite I. destruct (Qminb_cases a y) as [-> | ->]; [left; reflexivity|right; left; reflexivity].
Qed.
Lemma fold_Qmaxb_ge : forall r a, a <= fold_left Qmaxb r a /\ forall x, In x r -> x <= fold_left Qmaxb r a.
Proof.
  induction r as [|y r IH]; intros a; simpl; [split; [apply Qle_refl|intros x []]|].
  destruct (IH (Qmaxb a y)) as [I1 I2]. split.
  - eapply Qle_trans; [apply Qmaxb_ge_l|exact I1].
  - intros x [->|Hx]; [eapply Qle_trans; [apply Qmaxb_ge_r|exact I1]|apply I2; exact Hx].
Qed.
Lemma fold_Qmaxb_In : forall r a, fold_left Qmaxb r a = a \/ In (fold_left Qmaxb r a) r.
Proof.
  induction r as [|y r IH]; intros a; simpl; [left; reflexivity|].
  destruct (IH (Qmaxb a y)) as [I|I]; [|right; right; exact I].
  rewrite I. destruct (Qmaxb_cases a y) as [-> | ->]; [left; reflexivity|right; left; reflexivity].
Qed.

Lemma lmin_le l x : In x l -> lmin l <= x.
Proof.
  destruct l as [|a r]; [intros []|]. unfold lmin. destruct (fold_Qminb_le r a) as [I1 I2].
  intros [->|Hx]; [exact I1|apply I2; exact Hx].
Qed.
Lemma lmin_In l : l <> [] -> In (lmin l) l.
Proof.
  destruct l as [|a r]; [congruence|intros _]. unfold lmin.
  destruct (fold_Qminb_In r a) as [-> |I]; [left; reflexivity|right; exact I].
Qed.
Lemma lmax_ge l x : In x l -> x <= lmax l.
Proof.
  destruct l as [|a r]; [intros []|]. unfold lmax. destruct (fold_Qmaxb_ge r a) as [I1 I2].
  intros [->|Hx]; [exact I1|apply I2; exact Hx].
Qed.
Lemma lmax_In l : l <> [] -> In (lmax l) l.
Proof.
  destruct l as [|a r]; [congruence|intros _]. unfold lmax.
  destruct (fold_Qmaxb_In r a) as [-> |I]; [left; reflexivity|right; exact I].
Qed.

(* the successful raw values are exactly the entries of the non-failure selection *)
Lemma In_select_success : forall (fails : list bool) (vals : list Q) x,
  In x (select (map negb fails) vals) <->
  exists t, (t < length vals)%nat /\ nth t fails true = false /\ nth t vals 0 = x.
Proof.
  induction fails as [|f fails IH]; intros vals x; cbn [map select].
  - split; [intros []|]. intros (t & _ & H & _). destruct t; discriminate.
  - destruct vals as [|v vals]; [split; [intros []|intros (t & H & _); simpl in H; lia]|].
    destruct f; cbn [negb].
    + rewrite IH. split.
      * intros (t & H1 & H2 & H3). exists (S t). cbn [length nth]. split; [lia|]. split; assumption.
      * intros ([|t] & H1 & H2 & H3); cbn [length nth] in *; [discriminate|]. exists t. split; [lia|]. split; assumption.
    + cbn [In]. rewrite IH. split.
      * intros [->|(t & H1 & H2 & H3)]; [exists O; cbn [length nth]; split; [lia|split; reflexivity]|].
        exists (S t). cbn [length nth]. split; [lia|]. split; assumption.
      * intros ([|t] & H1 & H2 & H3); cbn [length nth] in *; [left; exact H3|]. right. exists t. split; [lia|]. split; assumption.
Qed.

Lemma nth_map_combine {A B C} (f : A * B -> C) (da : A) (db : B) (dc : C) : forall (a : list A) (b : list B) t,
  length b = length a -> (t < length a)%nat -> nth t (map f (combine a b)) dc = f (nth t a da, nth t b db).
Proof.
  intros a b t Hl Ht.
  rewrite nth_indep with (d' := f (da, db)) by (rewrite map_length, combine_length; lia).
  rewrite (map_nth f). rewrite combine_nth by (symmetry; exact Hl). reflexivity.
Qed.

(* the raw value that stands behind scaled value t: the observation's own raw value for a success, the lie (= the worst
   successful raw value) for a failure *)
Definition raw_behind (maximize : bool) (vals : list Q) (fails : list bool) (t : nat) : Q :=
  if nth t fails false
  then (if maximize then lmin (select (map negb fails) vals) else lmax (select (map negb fails) vals))
  else nth t vals 0.

(* order of the scaled values = order of the objective on the raw values behind them *)
Lemma scaled_le_iff (maximize : bool) vals fails t u :
  length fails = length vals -> select (map negb fails) vals <> [] ->
  (t < length vals)%nat -> (u < length vals)%nat ->
  (nth t (scaled_values maximize vals fails) 0 <= nth u (scaled_values maximize vals fails) 0 <->
   if maximize then raw_behind maximize vals fails u <= raw_behind maximize vals fails t
   else raw_behind maximize vals fails t <= raw_behind maximize vals fails u).
Proof.
  intros Hl Hne Ht Hu.
  destruct (scaled_values_affine maximize vals fails Hne) as (s & m & lie & Hs & Hlie & E).
  rewrite E. rewrite !(nth_map_combine _ 0 false 0) by assumption. cbn [fst snd].
  fold (raw_behind maximize vals fails). unfold raw_behind. rewrite <- Hlie.
  set (wt := if nth t fails false then lie else nth t vals 0).
  set (wu := if nth u fails false then lie else nth u vals 0).
  destruct maximize.
  - rewrite (affine_order (Qopp 1) s m wt wu Hs (or_intror (Qeq_refl _))). split; intros H; lra.
  - rewrite (affine_order 1 s m wt wu Hs (or_introl (Qeq_refl _))). split; intros H; lra.
Qed.

Lemma scaled_lt_iff (maximize : bool) vals fails t u :
  length fails = length vals -> select (map negb fails) vals <> [] ->
  (t < length vals)%nat -> (u < length vals)%nat ->
  (nth t (scaled_values maximize vals fails) 0 < nth u (scaled_values maximize vals fails) 0 <->
   if maximize then raw_behind maximize vals fails u < raw_behind maximize vals fails t
   else raw_behind maximize vals fails t < raw_behind maximize vals fails u).
Proof.
  intros Hl Hne Ht Hu. pose proof (scaled_le_iff maximize vals fails u t Hl Hne Hu Ht) as H.
  destruct maximize; split; intros L.
  - apply Qnot_le_lt. intros C. apply (Qlt_not_le _ _ L). apply H. exact C.
  - apply Qnot_le_lt. intros C. apply (Qlt_not_le _ _ L). apply H. exact C.
  - apply Qnot_le_lt. intros C. apply (Qlt_not_le _ _ L). apply H. exact C.
  - apply Qnot_le_lt. intros C. apply (Qlt_not_le _ _ L). apply H. exact C.
Qed.

Lemma nth_fails_default (fails : list bool) t : (t < length fails)%nat -> nth t fails true = nth t fails false.
Proof. intros H. apply nth_indep. exact H. Qed.

(* every raw value behind a scaled value lies between the least and the greatest successful raw value *)
Lemma raw_behind_range (maximize : bool) vals fails t :
  length fails = length vals -> select (map negb fails) vals <> [] -> (t < length vals)%nat ->
  lmin (select (map negb fails) vals) <= raw_behind maximize vals fails t <= lmax (select (map negb fails) vals).
Proof.
  intros Hl Hne Ht. set (nf := select (map negb fails) vals) in *.
  assert (Hmm : lmin nf <= lmax nf) by (apply lmin_le, lmax_In; exact Hne).
  unfold raw_behind. fold nf. destruct (nth t fails false) eqn:Ef.
  - destruct maximize; split; try apply Qle_refl; exact Hmm.
  - assert (Hin : In (nth t vals 0) nf).
    { apply In_select_success. exists t. split; [exact Ht|]. split; [|reflexivity].
      rewrite nth_fails_default by lia. exact Ef. }
    split; [apply lmin_le|apply lmax_ge]; exact Hin.
Qed.

(* ------------------------------------------------------------------ the values the view compares: +inf for failures *)
Lemma nth_masked scaled fails t : length fails = length scaled -> (t < length scaled)%nat ->
  nth t (masked_values scaled fails) PInf = if nth t fails false then PInf else Val (nth t scaled 0).
Proof.
  intros Hl Ht. unfold masked_values. rewrite (nth_map_combine _ 0 false PInf) by assumption. reflexivity.
Qed.

Section Masked.
Variable maximize : bool.
Variable vals : list Q.
Variable fails : list bool.
Hypothesis Hl : length fails = length vals.
Let nf := select (map negb fails) vals.
Hypothesis Hne : nf <> [].
Let sv := scaled_values maximize vals fails.
Let mv := masked_values sv fails.
Let m (t : nat) : xv := nth t mv PInf.

Lemma sv_length : length sv = length vals.
Proof. unfold sv. apply scaled_values_length. lia. Qed.

Lemma m_failed t : (t < length vals)%nat -> nth t fails false = true -> m t = PInf.
Proof. intros Ht Ef. unfold m, mv. rewrite nth_masked by (rewrite sv_length; assumption). rewrite Ef. reflexivity. Qed.

Lemma m_success t : (t < length vals)%nat -> nth t fails true = false -> m t = Val (nth t sv 0).
Proof.
  intros Ht Ef. unfold m, mv. rewrite nth_masked by (rewrite sv_length; assumption).
  rewrite <- nth_fails_default by lia. rewrite Ef. reflexivity.
Qed.

Lemma success_or_failed t : (t < length vals)%nat -> nth t fails true = false \/ nth t fails false = true.
Proof. intros Ht. rewrite (nth_fails_default fails t) by lia. destruct (nth t fails false); auto. Qed.

Lemma raw_behind_success t : (t < length vals)%nat -> nth t fails true = false -> raw_behind maximize vals fails t = nth t vals 0.
Proof. intros Ht Ef. unfold raw_behind. rewrite <- nth_fails_default by lia. rewrite Ef. reflexivity. Qed.

(* between two successes the comparison the view makes IS the comparison of the raw values for the objective *)
Lemma m_lt_success t u : (t < length vals)%nat -> (u < length vals)%nat -> nth t fails true = false -> nth u fails true = false ->
  (vlt (m t) (m u) <-> if maximize then nth u vals 0 < nth t vals 0 else nth t vals 0 < nth u vals 0).
Proof.
  intros Ht Hu Et Eu. unfold vlt. rewrite (m_success t Ht Et), (m_success u Hu Eu). cbn [vltb]. rewrite Qltb_lt.
  pose proof (scaled_lt_iff maximize vals fails t u Hl Hne Ht Hu) as H. fold sv in H.
  rewrite (raw_behind_success t Ht Et), (raw_behind_success u Hu Eu) in H. exact H.
Qed.
Lemma m_le_success t u : (t < length vals)%nat -> (u < length vals)%nat -> nth t fails true = false -> nth u fails true = false ->
  (vle (m t) (m u) <-> if maximize then nth u vals 0 <= nth t vals 0 else nth t vals 0 <= nth u vals 0).
Proof.
  intros Ht Hu Et Eu. unfold vle. rewrite (m_success t Ht Et), (m_success u Hu Eu). cbn [vltb]. rewrite Qltb_ge.
  pose proof (scaled_le_iff maximize vals fails t u Hl Hne Ht Hu) as H. fold sv in H.
  rewrite (raw_behind_success t Ht Et), (raw_behind_success u Hu Eu) in H. exact H.
Qed.
(* a success is strictly before every failure; nothing is strictly after a failure *)
Lemma m_success_lt_failed t u : (t < length vals)%nat -> (u < length vals)%nat -> nth t fails true = false -> nth u fails false = true ->
  vlt (m t) (m u).
Proof. intros Ht Hu Et Eu. unfold vlt. rewrite (m_success t Ht Et), (m_failed u Hu Eu). reflexivity. Qed.
Lemma m_failed_not_lt t x : (t < length vals)%nat -> nth t fails false = true -> ~ vlt (m t) x.
Proof. intros Ht Et. unfold vlt. rewrite (m_failed t Ht Et). simpl. discriminate. Qed.
Lemma m_le_failed_is_failed b t : (b < length vals)%nat -> (t < length vals)%nat -> nth b fails false = true -> vle (m b) (m t) ->
  nth t fails false = true.
Proof.
  intros Hb Ht Eb H. destruct (success_or_failed t Ht) as [Et|Et]; [|exact Et].
  exfalso. pose proof (m_success_lt_failed t b Ht Hb Et Eb) as L. unfold vlt, vle in *. congruence.
Qed.

(* (1) the first minimum of the compared values: the first centre, the first returned index *)
Theorem first_min_is_best_success :
  let bestv := if maximize then lmax nf else lmin nf in
  let b := vargmin mv in
  (b < length vals)%nat /\ nth b fails true = false /\ nth b vals 0 == bestv /\
  (forall t, (t < length vals)%nat -> nth t fails true = false ->
     if maximize then nth t vals 0 <= nth b vals 0 else nth b vals 0 <= nth t vals 0) /\
  (forall t, (t < b)%nat -> nth t fails true = false ->
     if maximize then nth t vals 0 < nth b vals 0 else nth b vals 0 < nth t vals 0).
Proof.
  intros bestv b.
  assert (Hml : length mv = length vals) by (unfold mv; rewrite masked_values_length; rewrite sv_length; lia).
  assert (Hmne : mv <> []).
  { intros E. rewrite E in Hml. destruct vals; [|discriminate]. destruct fails; [|discriminate]. apply Hne. reflexivity. }
  destruct (vargmin_first mv Hmne) as (Hb & Hmin & Hfirst). fold b in Hb, Hmin, Hfirst. rewrite Hml in Hb, Hmin.
  fold (m b) in Hmin, Hfirst.
  assert (Hbest : exists t, (t < length vals)%nat /\ nth t fails true = false /\ nth t vals 0 = bestv).
  { apply In_select_success. unfold bestv. fold nf. destruct maximize; [apply lmax_In|apply lmin_In]; exact Hne. }
  assert (Eb : nth b fails true = false).
  { destruct (success_or_failed b Hb) as [E|E]; [exact E|]. exfalso. destruct Hbest as (t & Ht & Et & _).
    pose proof (Hmin t Ht) as H. fold (m t) in H. pose proof (m_success_lt_failed t b Ht Hb Et E) as L.
    unfold vlt, vle in *. congruence. }
  assert (Hall : forall t, (t < length vals)%nat -> nth t fails true = false ->
            if maximize then nth t vals 0 <= nth b vals 0 else nth b vals 0 <= nth t vals 0).
  { intros t Ht Et. apply (proj1 (m_le_success b t Hb Ht Eb Et)). apply Hmin. exact Ht. }
  split; [exact Hb|]. split; [exact Eb|]. split; [|split; [exact Hall|]].
  - destruct Hbest as (t & Ht & Et & Ev). pose proof (Hall t Ht Et) as H. rewrite Ev in H.
    assert (Hin : In (nth b vals 0) nf) by (apply In_select_success; exists b; auto).
    pose proof (lmin_le nf _ Hin) as R1. pose proof (lmax_ge nf _ Hin) as R2.
    unfold bestv in *. destruct maximize; lra.
  - intros t Ht Et. apply (proj1 (m_lt_success b t Hb ltac:(lia) Eb Et)). apply Hfirst. exact Ht.
Qed.

(* (2) any index b whose compared value is the first minimum over a set P of observations (a cluster) *)
Theorem set_min_is_best_success (P : nat -> Prop) (b : nat) :
  (b < length vals)%nat ->
  (forall t, (t < length vals)%nat -> P t -> vle (m b) (m t)) ->
  (forall t, (t < b)%nat -> P t -> vlt (m b) (m t)) ->
  ((exists t, (t < length vals)%nat /\ P t /\ nth t fails true = false) -> nth b fails true = false) /\
  (nth b fails true = false ->
     (forall t, (t < length vals)%nat -> P t -> nth t fails true = false ->
        if maximize then nth t vals 0 <= nth b vals 0 else nth b vals 0 <= nth t vals 0) /\
     (forall t, (t < b)%nat -> P t -> nth t fails true = false ->
        if maximize then nth t vals 0 < nth b vals 0 else nth b vals 0 < nth t vals 0)) /\
  (nth b fails false = true ->
     (forall t, (t < length vals)%nat -> P t -> nth t fails false = true) /\
     (forall t, (t < b)%nat -> ~ P t)).
Proof.
  intros Hb Hmin Hfirst.
  assert (Hfail : nth b fails false = true ->
            (forall t, (t < length vals)%nat -> P t -> nth t fails false = true) /\ (forall t, (t < b)%nat -> ~ P t)).
  { intros Eb. split.
    - intros t Ht HP. apply (m_le_failed_is_failed b t Hb Ht Eb). apply Hmin; assumption.
    - intros t Ht HP. apply (m_failed_not_lt b (m t) Hb Eb). apply Hfirst; assumption. }
  split; [|split; [|exact Hfail]].
  - intros (t & Ht & HP & Et). destruct (success_or_failed b Hb) as [E|E]; [exact E|]. exfalso.
    pose proof (proj1 (Hfail E) t Ht HP) as F. rewrite <- nth_fails_default in F by lia. congruence.
  - intros Eb. split.
    + intros t Ht HP Et. apply (proj1 (m_le_success b t Hb Ht Eb Et)). apply Hmin; assumption.
    + intros t Ht HP Et. apply (proj1 (m_lt_success b t Hb ltac:(lia) Eb Et)). apply Hfirst; assumption.
Qed.
End Masked.

(* the whole endpoint in terms of RAW values: the strict reading *)
Theorem view_strict cs tgt points vals fails maximize k ohs :
  all_some (map (to_one_hot cs) points) = Some ohs ->
  length vals = length points -> length fails = length points -> (2 <= k < length points)%nat ->
  let nf := select (map negb fails) vals in
  nf <> [] ->
  let mv := masked_values (scaled_values maximize vals fails) fails in
  let spts := map (search_point cs tgt) ohs in
  let bestv := if maximize then lmax nf else lmin nf in
  exists centres part best,
    k_center spts (vargmin mv) k = Some (centres, part) /\
    view cs tgt points vals fails maximize k = Some best /\
    length best = k /\ NoDup best /\ (forall i, In i best -> (i < length points)%nat) /\
    (let b0 := hd O best in
     In b0 best /\ nth b0 fails true = false /\ nth b0 vals 0 == bestv /\
     (forall t, (t < length points)%nat -> nth t fails true = false ->
        if maximize then nth t vals 0 <= nth b0 vals 0 else nth b0 vals 0 <= nth t vals 0) /\
     (forall t, (t < b0)%nat -> nth t fails true = false ->
        if maximize then nth t vals 0 < nth b0 vals 0 else nth b0 vals 0 < nth t vals 0)) /\
    forall c, (c < k)%nat ->
      let b := nth c best O in
      nth b part O = c /\
      ((exists t, (t < length points)%nat /\ nth t part O = c /\ nth t fails true = false) -> nth b fails true = false) /\
      (nth b fails true = false ->
         (forall t, (t < length points)%nat -> nth t part O = c -> nth t fails true = false ->
            if maximize then nth t vals 0 <= nth b vals 0 else nth b vals 0 <= nth t vals 0) /\
         (forall t, (t < b)%nat -> nth t part O = c -> nth t fails true = false ->
            if maximize then nth t vals 0 < nth b vals 0 else nth b vals 0 < nth t vals 0)) /\
      (nth b fails false = true ->
         (forall t, (t < length points)%nat -> nth t part O = c -> nth t fails false = true) /\
         (forall t, (t < b)%nat -> nth t part O <> c)).
Proof.
  intros Hoh Hlv Hlf Hk nf Hne mv spts bestv.
  destruct (view_spec cs tgt points vals fails maximize k ohs Hoh Hlv Hlf Hk)
    as (centres & part & best & H1 & H2 & H3 & H4 & H5 & H6 & H7).
  fold mv spts in H1, H6, H7.
  assert (Hl : length fails = length vals) by lia.
  exists centres, part, best. split; [exact H1|]. split; [exact H2|]. split; [exact H3|]. split; [exact H4|]. split; [exact H5|].
  split.
  - cbv zeta. split; [destruct best; [simpl in H3; lia|left; reflexivity]|]. rewrite H6.
    pose proof (first_min_is_best_success maximize vals fails Hl Hne) as F. cbv zeta in F. fold nf mv bestv in F.
    rewrite Hlv in F. destruct F as (_ & F2 & F3 & F4 & F5). repeat split; assumption.
  - intros c Hc. cbv zeta. destruct (H7 c Hc) as (P1 & P2 & P3). split; [exact P1|].
    assert (Hb : (nth c best O < length vals)%nat) by (rewrite Hlv; apply H5, nth_In; lia).
    pose proof (set_min_is_best_success maximize vals fails Hl Hne (fun t => nth t part O = c) (nth c best O) Hb) as S.
    fold mv in S. rewrite Hlv in S. exact (S P2 P3).
Qed.

(* strict reading of "one of which is the overall best observation": the first returned index is a SUCCESSFUL observation
   whose raw value no success beats, every earlier success being strictly worse *)
Theorem overall_best_strict cs tgt points vals fails maximize k ohs :
  all_some (map (to_one_hot cs) points) = Some ohs ->
  length vals = length points -> length fails = length points -> (2 <= k < length points)%nat ->
  (exists i, (i < length points)%nat /\ nth i fails true = false) ->
  exists best,
    view cs tgt points vals fails maximize k = Some best /\
    let b0 := hd O best in
    In b0 best /\ (b0 < length points)%nat /\ nth b0 fails true = false /\
    (forall t, (t < length points)%nat -> nth t fails true = false ->
       if maximize then nth t vals 0 <= nth b0 vals 0 else nth b0 vals 0 <= nth t vals 0) /\
    (forall t, (t < b0)%nat -> nth t fails true = false ->
       if maximize then nth t vals 0 < nth b0 vals 0 else nth b0 vals 0 < nth t vals 0).
Proof.
  intros Hoh Hlv Hlf Hk (i & Hi & Ei).
  assert (Hne : select (map negb fails) vals <> []).
  { intros E. assert (Hin : In (nth i vals 0) (select (map negb fails) vals)).
    { apply In_select_success. exists i. split; [lia|]. split; [exact Ei|reflexivity]. }
    rewrite E in Hin. destruct Hin. }
  destruct (view_strict cs tgt points vals fails maximize k ohs Hoh Hlv Hlf Hk Hne)
    as (centres & part & best & _ & H2 & _ & _ & H5 & (B1 & B2 & _ & B4 & B5) & _).
  exists best. split; [exact H2|]. cbv zeta. split; [exact B1|]. split; [apply H5; exact B1|]. split; [exact B2|]. split; assumption.
Qed.

(* hence the endpoint never answers with failed observations only when a success exists *)
Theorem never_only_failures cs tgt points vals fails maximize k best :
  length vals = length points -> length fails = length points -> (2 <= k < length points)%nat ->
  view cs tgt points vals fails maximize k = Some best ->
  (exists i, (i < length points)%nat /\ nth i fails true = false) ->
  exists i, In i best /\ nth i fails true = false.
Proof.
  intros Hlv Hlf Hk Hv Hs. unfold view in Hv.
  destruct (all_some (map (to_one_hot cs) points)) as [ohs|] eqn:Hoh; [|discriminate].
  destruct (overall_best_strict cs tgt points vals fails maximize k ohs Hoh Hlv Hlf Hk Hs) as (best' & Hv' & B1 & _ & B2 & _).
  unfold view in Hv'. rewrite Hoh in Hv'. rewrite Hv in Hv'. injection Hv' as <-.
  exists (hd O best). split; assumption.
Qed.
