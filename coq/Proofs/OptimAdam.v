(* Proofs for C07 about the Adam moment formulas of Model.Optim (one coordinate, exact arithmetic, the square root
   an oracle with the contract  0 <= s, s * s == v). *)
From Coq Require Import List QArith Bool Arith Lia Lra Psatz Qabs.
From LV Require Import Model.Optim.
Import ListNotations.
Open Scope Q_scope.

Lemma sqrt_sq_abs g s : 0 <= s -> s * s == g * g -> s == Qabs g.
Proof. intros Hs H. apply Qabs_case; intros Hg; nra. Qed.

Lemma Qdiv_nonneg a b : 0 <= a -> 0 < b -> 0 <= a / b.
Proof. intros Ha Hb. unfold Qdiv. apply Qmult_le_0_compat; [exact Ha | apply Qlt_le_weak, Qinv_lt_0_compat, Hb]. Qed.
Lemma Qdiv_pos a b : 0 < a -> 0 < b -> 0 < a / b.
Proof. intros Ha Hb. unfold Qdiv. apply Qmult_lt_0_compat; [exact Ha | apply Qinv_lt_0_compat, Hb]. Qed.

(* the first step is lr * g / (|g| + eps) *)
Lemma adam_first_step b1 b2 lr eps g s :
  ~ b1 == 1 -> 0 <= s -> s * s == a_vhat (adam_coord b1 b2 lr eps 1 0 0 g s) -> ~ b2 == 1 -> 0 < Qabs g + eps ->
  a_upd (adam_coord b1 b2 lr eps 1 0 0 g s) == adam_first lr eps g.
Proof.
  intros H1 Hs Hv H2 Hd. unfold adam_coord, adam_first in *. cbn [a_upd a_vhat qpow] in *.
  assert (Hvv : (b2 * 0 + (1 - b2) * (- g * - g)) / (1 - b2 * 1) == g * g) by (field; lra).
  rewrite Hvv in Hv. pose proof (sqrt_sq_abs g s Hs Hv) as Es. rewrite Es.
  field. split; lra.
Qed.

(* it never points against the gradient, and points along it unless the gradient (or the learning rate) is zero *)
Lemma adam_first_ascent lr eps g : 0 <= lr -> 0 < Qabs g + eps -> 0 <= adam_first lr eps g * g.
Proof.
  intros Hl Hd. unfold adam_first.
  assert (E : lr * g / (Qabs g + eps) * g == (lr * (g * g)) / (Qabs g + eps)) by (field; lra).
  rewrite E. apply Qdiv_nonneg; [nra | exact Hd].
Qed.
Lemma adam_first_ascent_strict lr eps g : 0 < lr -> 0 < Qabs g + eps -> ~ g == 0 -> 0 < adam_first lr eps g * g.
Proof.
  intros Hl Hd Hg. unfold adam_first.
  assert (E : lr * g / (Qabs g + eps) * g == (lr * (g * g)) / (Qabs g + eps)) by (field; lra).
  rewrite E. apply Qdiv_pos; [|exact Hd].
  assert (0 < g * g) by (destruct (Qlt_le_dec 0 g); [nra | assert (g < 0) by (apply Qle_lt_or_eq in q; destruct q; [assumption | contradiction]); nra]).
  nra.
Qed.

(* the whole first update vector has a non-negative inner product with the gradient *)
Lemma adam_first_inner lr eps : forall g, 0 <= lr -> 0 < eps -> 0 <= dot (map (adam_first lr eps) g) g.
Proof.
  induction g as [|x g IH]; intros Hl He; simpl; [lra|].
  assert (0 < Qabs x + eps) by (pose proof (Qabs_nonneg x); lra).
  pose proof (adam_first_ascent lr eps x Hl H). specialize (IH Hl He). lra.
Qed.

Lemma qpow_range b : 0 < b -> b < 1 -> forall i, (1 <= i)%nat -> 0 < qpow b i /\ qpow b i < 1.
Proof.
  intros H0 H1 i Hi. induction i as [|i IH]; [lia|].
  destruct i as [|i].
  - simpl. lra.
  - assert (Hi' : (1 <= S i)%nat) by lia. specialize (IH Hi'). change (qpow b (S (S i))) with (b * qpow b (S i)). nra.
Qed.

(* one step with a gradient of sign sg (sg = 1: non-negative, sg = -1: non-positive) keeps the first moment on the
   opposite side and produces an update of the gradient's sign *)
Lemma adam_coord_sign sg b1 b2 lr eps i m v g s :
  0 < b1 -> b1 < 1 -> 0 <= lr -> 0 < s + eps -> (1 <= i)%nat -> sg * m <= 0 -> 0 <= sg * g ->
  sg * a_m (adam_coord b1 b2 lr eps i m v g s) <= 0 /\ 0 <= sg * a_upd (adam_coord b1 b2 lr eps i m v g s).
Proof.
  intros Hb0 Hb1 Hl Hd Hi Hm Hg. unfold adam_coord. cbn [a_m a_upd].
  destruct (qpow_range b1 Hb0 Hb1 i Hi) as [Hp0 Hp1].
  set (m' := b1 * m + (1 - b1) * - g).
  assert (Hm' : sg * m' <= 0) by (unfold m'; nra).
  split; [exact Hm'|].
  assert (E : sg * (- lr * (m' / (1 - qpow b1 i)) / (s + eps)) == (lr * (- (sg * m'))) / ((1 - qpow b1 i) * (s + eps))) by (field; lra).
  rewrite E. apply Qdiv_nonneg; nra.
Qed.

Lemma adam_run_sign sg b1 b2 lr eps : 0 < b1 -> b1 < 1 -> 0 <= lr ->
  forall gs ss i m v, (1 <= i)%nat -> sg * m <= 0 ->
  Forall (fun g => 0 <= sg * g) gs -> Forall (fun s => 0 < s + eps) ss ->
  Forall (fun o => 0 <= sg * a_upd o) (adam_coord_run b1 b2 lr eps i m v gs ss).
Proof.
  intros Hb0 Hb1 Hl. induction gs as [|g gs IH]; intros [|s ss] i m v Hi Hm Hg Hs; simpl; try constructor.
  - inversion Hg; subst. inversion Hs; subst.
    apply (adam_coord_sign sg b1 b2 lr eps i m v g s); assumption.
  - inversion Hg; subst. inversion Hs; subst.
    apply IH; [lia | | assumption | assumption].
    apply (adam_coord_sign sg b1 b2 lr eps i m v g s); assumption.
Qed.

(* while the gradient of a coordinate keeps one sign, every Adam update of that coordinate has that sign *)
Theorem adam_constant_sign_ascent b1 b2 lr eps gs ss :
  0 < b1 -> b1 < 1 -> 0 <= lr -> Forall (fun s => 0 < s + eps) ss ->
  (Forall (fun g => 0 <= g) gs -> Forall (fun o => 0 <= a_upd o) (adam_coord_run b1 b2 lr eps 1 0 0 gs ss)) /\
  (Forall (fun g => g <= 0) gs -> Forall (fun o => a_upd o <= 0) (adam_coord_run b1 b2 lr eps 1 0 0 gs ss)).
Proof.
  intros Hb0 Hb1 Hl Hs. split; intro Hg.
  - pose proof (adam_run_sign 1 b1 b2 lr eps Hb0 Hb1 Hl gs ss 1%nat 0 0 (le_n 1)) as H.
    assert (H' : Forall (fun o => 0 <= 1 * a_upd o) (adam_coord_run b1 b2 lr eps 1 0 0 gs ss)).
    { apply H; [lra | | exact Hs]. eapply Forall_impl; [|exact Hg]. intros a Ha. cbv beta in *. lra. }
    eapply Forall_impl; [|exact H']. intros a Ha. cbv beta in *. lra.
  - pose proof (adam_run_sign (-1) b1 b2 lr eps Hb0 Hb1 Hl gs ss 1%nat 0 0 (le_n 1)) as H.
    assert (H' : Forall (fun o => 0 <= (-1) * a_upd o) (adam_coord_run b1 b2 lr eps 1 0 0 gs ss)).
    { apply H; [lra | | exact Hs]. eapply Forall_impl; [|exact Hg]. intros a Ha. cbv beta in *. lra. }
    eapply Forall_impl; [|exact H']. intros a Ha. cbv beta in *. lra.
Qed.
