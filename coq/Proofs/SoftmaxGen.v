(* Theorems about Gen.GenSoftmax (regenerated from views/rest/gp_next_points_categorical.py: select_random_task_by_softmax): the
   probabilities handed to the task draw. *)
From Coq Require Import Reals Arith Lia Lra.
From LV Require Import Lib.RBase Gen.GenSoftmax.
Open Scope R_scope.

Lemma bigsum_pos n f : (0 < n)%nat -> (forall k, (k < n)%nat -> 0 < f k) -> 0 < bigsum n f.
Proof.
  intros Hn H. destruct n as [|n]; [lia|]. simpl.
  assert (0 <= bigsum n f) by (apply bigsum_nonneg; intros k Hk; left; apply H; lia).
  assert (0 < f n) by (apply H; lia). lra.
Qed.

Lemma Z_pos n c : (0 < n)%nat -> 0 < bigsum n (fun j => exp (- c j)).
Proof. intro Hn. apply bigsum_pos; [exact Hn|intros; apply exp_pos]. Qed.

Lemma task_probability_form n c i : Softmax.task_probability n c i = exp (- c i) / bigsum n (fun j => exp (- c j)).
Proof. reflexivity. Qed.

Lemma task_probability_pos n c i : (0 < n)%nat -> 0 < Softmax.task_probability n c i.
Proof. intro Hn. unfold Softmax.task_probability. apply Rdiv_lt_0_compat; [apply exp_pos|apply Z_pos; exact Hn]. Qed.

Lemma task_probability_sums_to_one n c : (0 < n)%nat -> bigsum n (Softmax.task_probability n c) = 1.
Proof.
  intro Hn. pose proof (Z_pos n c Hn) as HZ. unfold Softmax.task_probability.
  rewrite (bigsum_ext n _ (fun k => / bigsum n (fun j => exp (- c j)) * exp (- c k))) by (intros; unfold Rdiv; ring).
  rewrite bigsum_scal. field. lra.
Qed.

(* proportional to exp(-cost): the ratio of two probabilities is exp(c_j - c_i) *)
Lemma task_probability_ratio n c i j : (0 < n)%nat ->
  Softmax.task_probability n c i = exp (c j - c i) * Softmax.task_probability n c j.
Proof.
  intro Hn. pose proof (Z_pos n c Hn) as HZ. unfold Softmax.task_probability.
  assert (E : exp (c j - c i) = exp (- c i) * / exp (- c j)).
  { replace (c j - c i) with (- c i + - (- c j)) by ring. rewrite exp_plus, (exp_Ropp (- c j)). reflexivity. }
  rewrite E. clear E.
  pose proof (exp_pos (- c j)) as Hb. generalize dependent (bigsum n (fun j0 => exp (- c j0))). intros Z HZ.
  generalize dependent (exp (- c j)). intros b Hb. generalize (exp (- c i)). intro a. field. split; lra.
Qed.

(* a cheaper task is never less likely, a strictly cheaper one strictly more likely *)
Lemma task_probability_monotone n c i j : (0 < n)%nat ->
  (c i <= c j -> Softmax.task_probability n c j <= Softmax.task_probability n c i) /\
  (c i < c j -> Softmax.task_probability n c j < Softmax.task_probability n c i).
Proof.
  intro Hn. pose proof (Z_pos n c Hn) as HZ. unfold Softmax.task_probability, Rdiv.
  assert (Hi : 0 < / bigsum n (fun j0 => exp (- c j0))) by (apply Rinv_0_lt_compat; exact HZ).
  split; intro H.
  - apply Rmult_le_compat_r; [lra|]. destruct (Rle_lt_or_eq_dec _ _ H) as [L|E]; [left; apply exp_increasing; lra|rewrite E; apply Rle_refl].
  - apply Rmult_lt_compat_r; [exact Hi|]. apply exp_increasing. lra.
Qed.

Lemma task_probability_le_one n c i : (i < n)%nat -> Softmax.task_probability n c i <= 1.
Proof.
  intro Hi. assert (Hn : (0 < n)%nat) by lia. rewrite <- (task_probability_sums_to_one n c Hn).
  rewrite (bigsum_split n _ i Hi).
  assert (0 <= bigsum n (fun k => if Nat.eqb k i then 0 else Softmax.task_probability n c k)).
  { apply bigsum_nonneg. intros k Hk. destruct (Nat.eqb k i); [lra|left; apply task_probability_pos; exact Hn]. }
  lra.
Qed.
