(* C19: which data, threshold, objective and hyperparameters each failure model of the search view is built from. *)
From Coq Require Import List QArith ZArith Qabs Bool Arith Lia.
From LV Require Import Model.Domain Model.Decode Model.Midpoint Model.Wiring Model.SearchView.
From LV Require Proofs.Midpoint.
From LV Require Import Proofs.Wiring.
Import ListNotations.
Open Scope Q_scope.

Lemma sv_shape_lengths r : sv_shape_ok r = true ->
  length (q_values r) = length (q_points r) /\ length (q_vars r) = length (q_points r) /\
  length (q_fails r) = length (q_points r).
Proof.
  unfold sv_shape_ok. intros H. apply andb_prop in H. destruct H as [H H3]. apply andb_prop in H. destruct H as [H1 H2].
  apply Nat.eqb_eq in H1, H2, H3. auto.
Qed.

Theorem search_view_models r pfs : search_view_pfs r = Some pfs ->
  q_opt_ix r = [] /\ q_con_ix r <> [] /\
  exists pts pend,
    encode_rows (q_dom r) false (q_points r) [] = Some pts /\ encode_rows (q_dom r) false (q_pending r) [] = Some pend /\
    length pfs = length (q_con_ix r) /\
    forall k, (k < length (q_con_ix r))%nat ->
      let p := nth k pfs dpf in let m := nth k (q_con_ix r) O in
      p_kind p = PfCdf /\ g_metric (p_gp p) = m /\
      exists h i l t,
        nth_error (q_hypers r) m = Some h /\ hyper_vec (comps (q_dom r)) h = Some (g_hyp (p_gp p)) /\
        g_tik (p_gp p) = hp_tik h /\
        smmi (column m (q_values r)) (q_fails r) (nth m (q_objs r) NoObjective) = Some i /\
        lie_value i LieMin = Some l /\
        nth m (q_thr r) None = Some t /\ p_thr p = rel_value i t /\
        exists dp dv, length dp = length dv /\
          g_pts (p_gp p) = lied r dp pend /\ g_vals (p_gp p) = lied r dv (repeat (rel_value i l) (length pend)) /\
          Forall (row_pair r pts m i l) (combine dp dv) /\
          Forall (fun y => y <= rel_value i l) (g_vals (p_gp p)).
Proof.
  unfold search_view_pfs. intros H.
  destruct (sv_shape_ok r) eqn:Es; [|discriminate]. cbn [negb orb] in H.
  destruct (has_tasks r) eqn:Et; [discriminate|]. cbn [orb] in H.
  destruct (q_pareto r); [discriminate|].
  destruct (q_opt_ix r) as [|o0 os] eqn:Eo; [|discriminate].
  destruct (q_con_ix r) as [|c0 cx] eqn:Ec; [discriminate|].
  destruct (encode_rows (q_dom r) false (q_points r) []) as [pts|] eqn:Ep; [|discriminate].
  destruct (encode_rows (q_dom r) false (q_pending r) []) as [pend|] eqn:Epe; [|discriminate].
  split; [reflexivity|]. split; [discriminate|]. exists pts, pend. split; [reflexivity|]. split; [reflexivity|].
  destruct (sv_shape_lengths r Es) as (Lv & _ & Lf).
  destruct (encode_rows_spec _ _ _ _ _ Ep) as [Lp _].
  assert (Lfv : length (q_fails r) = length (q_values r)) by lia.
  assert (Lpv : length pts = length (q_values r)) by lia.
  destruct (con_pfs_origin r pts pend pfs H) as [[E0 _]|(Hne & c & Hc & Hlen & Hn)]; [rewrite Ec in E0; discriminate|].
  rewrite Ec in *. split; [exact Hlen|]. intros k Hk. set (p := nth k pfs dpf). set (m := nth k (c0 :: cx) O).
  destruct (Hn k Hk) as (K1 & K2 & K3). fold p in K1, K2, K3.
  unfold con_of in Hc. rewrite Ec in Hc.
  assert (Lc : length pts = length (v_values c)).
  { rewrite (preprocess_rows _ _ _ _ _ _ c Lfv Hc). exact Lpv. }
  pose proof (gp_for_pf_block r c (c0 :: cx) pts pend k (p_gp p) K3 Hk Lc) as B.
  destruct (block_values_law r pend pts c (c0 :: cx) k (p_gp p) Hc Lfv Lpv Lv B)
    as (Em & i & l & A1 & A2 & A3 & dp & dv & A4 & A5 & A6 & A7 & A8).
  fold m in Em. split; [exact K1|]. split; [exact Em|].
  destruct (single_gp_inv _ _ _ _ _ _ _ _ K3) as (h & Eh & Ehv & _ & _ & _ & _ & _ & _ & Etik & _).
  rewrite Em in A1, A3. rewrite K2 in A3.
  destruct (nth m (q_thr r) None) as [t|] eqn:Ethr; simpl in A3; [|discriminate].
  exists h, i, l, t. fold m in Eh. split; [exact Eh|]. split; [exact Ehv|]. split; [exact Etik|]. split; [exact A1|].
  split; [exact A2|]. split; [reflexivity|]. split; [injection A3 as ->; reflexivity|].
  exists dp, dv. rewrite Em in A7. auto.
Qed.
