(* C08: every sampler returns points of the (constrained) box; Latin hypercube strata. *)
From Coq Require Import List QArith Qround Bool Arith ZArith Lia Lra Psatz Permutation.
From LV Require Import Model.Restrict Model.Samplers Proofs.Restrict.
Import ListNotations.
Open Scope Q_scope.

Definition ordered_bounds (bs : list (Q * Q)) : Prop := forall b, In b bs -> fst b <= snd b.

(* ------------------------------------------------------------------ unit-cube transform *)
Theorem cube_transform_in_box : forall bs u, ordered_bounds bs -> length u = length bs -> Forall unit_interval u ->
  in_box bs (cube_transform bs u).
Proof.
  induction bs as [|b bs IH]; intros [|ui u] Hb Hl Hu; simpl in Hl; try discriminate; [constructor|].
  inversion Hu as [|? ? [U0 U1] Hu']; subst. unfold cube_transform. simpl. constructor.
  - assert (B := Hb b (or_introl eq_refl)). split; nra.
  - apply IH; [intros b' Hin; apply Hb; right; exact Hin|lia|exact Hu'].
Qed.

Theorem cube_sampler_in_box bs rows : ordered_bounds bs ->
  Forall (fun u => length u = length bs /\ Forall unit_interval u) rows -> Forall (in_box bs) (cube_sampler bs rows).
Proof.
  intros Hb Hr. unfold cube_sampler. apply Forall_forall. intros p Hp. apply in_map_iff in Hp. destruct Hp as [u [<- Hu]].
  rewrite Forall_forall in Hr. destruct (Hr u Hu). apply cube_transform_in_box; assumption.
Qed.

(* ------------------------------------------------------------------ Latin hypercube *)
Lemma nth_map_seq {A} (f : nat -> A) n i d : (i < n)%nat -> nth i (map f (seq 0 n)) d = f i.
Proof.
  intros Hi. rewrite (nth_indep _ d (f O)) by (rewrite map_length, seq_length; exact Hi).
  rewrite map_nth. rewrite seq_nth by exact Hi. reflexivity.
Qed.

Lemma Qfloor_unique (y : Q) (k : Z) : inject_Z k <= y -> y < inject_Z (k + 1) -> Qfloor y = k.
Proof.
  intros H1 H2.
  assert (A : (k <= Qfloor y)%Z). { rewrite <- (Qfloor_Z k). apply Qfloor_resp_le, H1. }
  assert (B : (Qfloor y < k + 1)%Z). { rewrite Zlt_Qlt. eapply Qle_lt_trans; [apply Qfloor_le|exact H2]. }
  lia.
Qed.

Definition lhs_draws_ok (n dim : nat) (U : list point) : Prop :=
  forall k j, (k < n)%nat -> (j < dim)%nat -> 0 <= nth j (nth k U []) 0 /\ nth j (nth k U []) 0 < 1 / inject_Z (Z.of_nat n).

Lemma lhs_entry n dim U perms i j : (i < n)%nat -> (j < dim)%nat ->
  nth j (nth i (lhs_unit n dim U perms) []) 0 =
  (let k := nth i (nth j perms []) O in inject_Z (Z.of_nat k) / inject_Z (Z.of_nat n) + nth j (nth k U []) 0).
Proof. intros Hi Hj. unfold lhs_unit. rewrite nth_map_seq by exact Hi. rewrite nth_map_seq by exact Hj. reflexivity. Qed.

Lemma lhs_value_range n (k : nat) u : (k < n)%nat -> 0 <= u -> u < 1 / inject_Z (Z.of_nat n) ->
  let x := inject_Z (Z.of_nat k) / inject_Z (Z.of_nat n) + u in
  inject_Z (Z.of_nat k) <= inject_Z (Z.of_nat n) * x /\ inject_Z (Z.of_nat n) * x < inject_Z (Z.of_nat k + 1) /\ 0 <= x /\ x <= 1.
Proof.
  intros Hk U0 U1. cbv zeta.
  assert (HN : 0 < inject_Z (Z.of_nat n)). { change 0 with (inject_Z 0). rewrite <- Zlt_Qlt. lia. }
  assert (HK : 0 <= inject_Z (Z.of_nat k)). { change 0 with (inject_Z 0). rewrite <- Zle_Qle. lia. }
  assert (HKN : inject_Z (Z.of_nat k) + 1 <= inject_Z (Z.of_nat n)).
  { change 1 with (inject_Z 1). rewrite <- inject_Z_plus, <- Zle_Qle. lia. }
  rewrite inject_Z_plus. change (inject_Z 1) with 1.
  set (N := inject_Z (Z.of_nat n)) in *. set (K := inject_Z (Z.of_nat k)) in *.
  set (q := K / N). assert (Eq : q * N == K) by (unfold q; field; lra).
  set (w := 1 / N) in *. assert (Ew : w * N == 1) by (unfold w; field; lra).
  repeat split; nra.
Qed.

(* every coordinate falls in the stratum its per-dimension permutation assigns *)
Theorem lhs_stratum n dim U perms i j : lhs_draws_ok n dim U -> (i < n)%nat -> (j < dim)%nat ->
  (nth i (nth j perms []) O < n)%nat ->
  stratum n (nth j (nth i (lhs_unit n dim U perms) []) 0) = Z.of_nat (nth i (nth j perms []) O).
Proof.
  intros HU Hi Hj Hk. rewrite lhs_entry by assumption. cbv zeta. set (k := nth i (nth j perms []) O) in *.
  destruct (HU k j Hk Hj) as [U0 U1].
  destruct (lhs_value_range n k _ Hk U0 U1) as [A [B _]]. unfold stratum. apply Qfloor_unique; assumption.
Qed.

Lemma map_nth_seq_id (l : list nat) n : length l = n -> map (fun i => nth i l O) (seq 0 n) = l.
Proof.
  intros Hl. apply (nth_ext _ _ O O); [rewrite map_length, seq_length; lia|].
  intros i Hi. rewrite map_length, seq_length in Hi. rewrite nth_map_seq by exact Hi. reflexivity.
Qed.

(* in every dimension the strata of the n points are that dimension's own permutation of 0..n-1: exactly one point per
   stratum, and the model takes one permutation per dimension, independently *)
Theorem lhs_one_per_stratum n dim U perms j : lhs_draws_ok n dim U -> (j < dim)%nat ->
  Permutation (seq 0 n) (nth j perms []) ->
  strata_of_dim n j (lhs_unit n dim U perms) = map Z.of_nat (nth j perms []) /\
  Permutation (map Z.of_nat (seq 0 n)) (strata_of_dim n j (lhs_unit n dim U perms)).
Proof.
  intros HU Hj HP. set (pj := nth j perms []) in *.
  assert (Hlen : length pj = n). { rewrite <- (Permutation_length HP). apply seq_length. }
  assert (Hlt : forall i, (i < n)%nat -> (nth i pj O < n)%nat).
  { intros i Hi. assert (I : In (nth i pj O) pj) by (apply nth_In; lia).
    apply (Permutation_in _ (Permutation_sym HP)) in I. apply in_seq in I. lia. }
  assert (E : strata_of_dim n j (lhs_unit n dim U perms) = map Z.of_nat pj).
  { unfold strata_of_dim. replace (map Z.of_nat pj) with (map Z.of_nat (map (fun i => nth i pj O) (seq 0 n))) by (rewrite (map_nth_seq_id pj n Hlen); reflexivity). rewrite map_map.
    unfold lhs_unit at 1. rewrite map_map. apply map_ext_in. intros i Hi. apply in_seq in Hi.
    transitivity (stratum n (nth j (nth i (lhs_unit n dim U perms) []) 0)).
    - unfold lhs_unit. rewrite (nth_map_seq _ n i []) by lia. reflexivity.
    - apply (lhs_stratum n dim U perms i j HU); try lia. apply Hlt. lia. }
  split; [exact E|]. rewrite E. apply Permutation_map, HP.
Qed.

Theorem lhs_points_in_box bs n U perms : ordered_bounds bs -> lhs_draws_ok n (length bs) U ->
  (forall j, (j < length bs)%nat -> Permutation (seq 0 n) (nth j perms [])) ->
  length (lhs_points bs n U perms) = n /\ Forall (in_box bs) (lhs_points bs n U perms).
Proof.
  intros Hb HU HP. unfold lhs_points. split.
  - unfold cube_sampler, lhs_unit. rewrite !map_length. apply seq_length.
  - apply cube_sampler_in_box; [exact Hb|]. unfold lhs_unit. apply Forall_forall. intros row Hr.
    apply in_map_iff in Hr. destruct Hr as [i [<- Hi]]. apply in_seq in Hi. split; [rewrite map_length; apply seq_length|].
    apply Forall_forall. intros x Hx. apply in_map_iff in Hx. destruct Hx as [j [<- Hj]]. apply in_seq in Hj.
    assert (Hk : (nth i (nth j perms []) O < n)%nat).
    { specialize (HP j ltac:(lia)). assert (L : length (nth j perms []) = n) by (rewrite <- (Permutation_length HP); apply seq_length).
      assert (I : In (nth i (nth j perms []) O) (nth j perms [])) by (apply nth_In; lia).
      apply (Permutation_in _ (Permutation_sym HP)) in I. apply in_seq in I. lia. }
    destruct (HU _ j Hk ltac:(lia)) as [U0 U1].
    destruct (lhs_value_range n _ _ Hk U0 U1) as [_ [_ [X0 X1]]]. split; assumption.
Qed.

(* ------------------------------------------------------------------ rejection sampling *)
Lemma firstn_In {A} (n : nat) (l : list A) x : In x (firstn n l) -> In x l.
Proof. intros H. rewrite <- (firstn_skipn n l). apply in_or_app. left. exact H. Qed.

Lemma rejection_loop_inv hs bsz (P : point -> Prop) : forall blocks acc lft budget,
  Forall P acc -> (forall blk p, In blk blocks -> In p blk -> sat_all hs p -> P p) ->
  Forall P (fst (rejection_loop hs bsz blocks acc lft budget)).
Proof.
  induction blocks as [|blk blocks IH]; intros acc lft budget Ha Hb; simpl.
  - destruct (Z.ltb 0 lft && Z.ltb 0 budget); exact Ha.
  - destruct (Z.ltb 0 lft && Z.ltb 0 budget); [|exact Ha].
    apply IH.
    + apply Forall_app. split; [exact Ha|]. apply Forall_forall. intros p Hp. apply filter_In in Hp. destruct Hp as [Hp Hs].
      apply (Hb blk p); [left; reflexivity|exact Hp|apply sat_all_b_iff, Hs].
    + intros blk' p Hin. apply Hb. right. exact Hin.
Qed.
Lemma rejection_loop_count hs bsz : forall blocks acc lft budget,
  snd (rejection_loop hs bsz blocks acc lft budget) =
  (lft + Z.of_nat (length acc) - Z.of_nat (length (fst (rejection_loop hs bsz blocks acc lft budget))))%Z.
Proof.
  induction blocks as [|blk blocks IH]; intros acc lft budget; simpl.
  - destruct (Z.ltb 0 lft && Z.ltb 0 budget); simpl; lia.
  - destruct (Z.ltb 0 lft && Z.ltb 0 budget); simpl; [|lia]. rewrite IH. rewrite app_length. lia.
Qed.

(* every point handed back satisfies every row and comes from a candidate block; success means exactly num points *)
Theorem rejection_outputs_feasible hs num bsz budget blocks (R : point -> Prop) :
  (forall blk p, In blk blocks -> In p blk -> R p) ->
  let r := rejection_sampling hs num bsz budget blocks in
  Forall (fun p => sat_all hs p /\ R p) (fst r) /\ (snd r = true -> length (fst r) = num).
Proof.
  intros HQ. cbv zeta. unfold rejection_sampling. destruct num as [|m]; [simpl; split; [constructor|discriminate]|].
  remember (S m) as num eqn:Hnum.
  pose proof (rejection_loop_inv hs bsz (fun p => sat_all hs p /\ R p) blocks [] (Z.of_nat num) budget (Forall_nil _)) as I.
  pose proof (rejection_loop_count hs bsz blocks [] (Z.of_nat num) budget) as C.
  destruct (rejection_loop hs bsz blocks [] (Z.of_nat num) budget) as [pts lft]. cbn [fst snd length] in I, C.
  assert (F : Forall (fun p => sat_all hs p /\ R p) pts).
  { apply I. intros blk p Hb Hp Hs. split; [exact Hs|apply (HQ blk p Hb Hp)]. }
  rewrite Hnum at 1. rewrite <- Hnum.
  destruct (Z.ltb 0 lft) eqn:E; cbn [fst snd].
  - split; [exact F|discriminate].
  - split.
    + apply Forall_forall. intros p Hp. rewrite Forall_forall in F. apply F. apply (firstn_In num pts), Hp.
    + intros _. apply Z.ltb_ge in E. apply firstn_length_le. lia.
Qed.

(* ------------------------------------------------------------------ hit-and-run *)
Lemma Qminb_l a b : Qminb a b <= a.
Proof.
  unfold Qminb. destruct (Qle_bool a b) eqn:E; [lra|].
  destruct (Qlt_le_dec a b) as [L|L]; [|exact L]. exfalso. assert (H : a <= b) by lra. apply Qle_bool_iff in H. congruence.
Qed.
Lemma Qminb_r a b : Qminb a b <= b.
Proof. unfold Qminb. destruct (Qle_bool a b) eqn:E; [apply Qle_bool_iff, E|lra]. Qed.
Lemma Qminb_cases a b : Qminb a b = a \/ Qminb a b = b.
Proof. unfold Qminb. destruct (Qle_bool a b); auto. Qed.

Lemma fold_max_spec : forall r x, (forall y, In y (x :: r) -> y <= fold_left Qmaxb r x) /\ In (fold_left Qmaxb r x) (x :: r).
Proof.
  induction r as [|z r IH]; intros x; simpl.
  - split; [intros y [->|[]]; lra|left; reflexivity].
  - destruct (IH (Qmaxb x z)) as [H1 H2]. split.
    + intros y [->|[->|Hy]].
      * eapply Qle_trans; [apply (Qmaxb_l y z)|apply H1; left; reflexivity].
      * eapply Qle_trans; [apply (Qmaxb_r x y)|apply H1; left; reflexivity].
      * apply H1. right. exact Hy.
    + destruct H2 as [H2|H2]; [|right; right; exact H2].
      destruct (Qmaxb_cases x z) as [E|E]; [left|right; left]; congruence.
Qed.
Lemma fold_min_spec : forall r x, (forall y, In y (x :: r) -> fold_left Qminb r x <= y) /\ In (fold_left Qminb r x) (x :: r).
Proof.
  induction r as [|z r IH]; intros x; simpl.
  - split; [intros y [->|[]]; lra|left; reflexivity].
  - destruct (IH (Qminb x z)) as [H1 H2]. split.
    + intros y [->|[->|Hy]].
      * eapply Qle_trans; [apply H1; left; reflexivity|apply (Qminb_l y z)].
      * eapply Qle_trans; [apply H1; left; reflexivity|apply (Qminb_r x y)].
      * apply H1. right. exact Hy.
    + destruct H2 as [H2|H2]; [|right; right; exact H2].
      destruct (Qminb_cases x z) as [E|E]; [left|right; left]; congruence.
Qed.
Lemma max_list_spec l m : max_list l = Some m -> (forall y, In y l -> y <= m) /\ In m l.
Proof. destruct l as [|x r]; [discriminate|]. simpl. intros E. injection E as <-. apply fold_max_spec. Qed.
Lemma min_list_spec l m : min_list l = Some m -> (forall y, In y l -> m <= y) /\ In m l.
Proof. destruct l as [|x r]; [discriminate|]. simpl. intros E. injection E as <-. apply fold_min_spec. Qed.

Lemma map2_length {A B C} (f : A -> B -> C) : forall l1 l2, length l1 = length l2 -> length (map2 f l1 l2) = length l1.
Proof. induction l1 as [|a l1 IH]; intros [|b l2] H; simpl in *; try discriminate; [reflexivity|]. rewrite IH by lia. reflexivity. Qed.

(* from a point of the polytope, any direction, any u in [0,1]: the move stays in the polytope *)
Theorem hitandrun_step_inside hs x d u x' :
  sat_all hs x -> unit_interval u -> length x = length d -> hr_step hs x d u = Some x' -> sat_all hs x'.
Proof.
  intros Hx [U0 U1] Hl. unfold hr_step. set (zc := hr_params hs x d).
  destruct (max_list (map snd (filter (fun p => Qltb (fst p) 0) zc))) as [tmin|] eqn:Emax; [|discriminate].
  destruct (min_list (map snd (filter (fun p => Qltb 0 (fst p)) zc))) as [tmax|] eqn:Emin; [|discriminate].
  intros E. injection E as <-.
  destruct (max_list_spec _ _ Emax) as [Mx1 Mx2]. destruct (min_list_spec _ _ Emin) as [Mn1 Mn2].
  (* members of zc *)
  assert (Hzc : forall p, In p zc -> exists h, In h hs /\ fst p = dot (fst h) d /\ snd p = (snd h - dot (fst h) x) / dot (fst h) d).
  { intros p Hp. unfold zc, hr_params in Hp. apply in_map_iff in Hp. destruct Hp as [h [<- Hh]]. exists h. auto. }
  assert (Tmin : tmin <= 0).
  { apply in_map_iff in Mx2. destruct Mx2 as [p [<- Hp]]. apply filter_In in Hp. destruct Hp as [Hp Hz]. apply Qltb_lt in Hz.
    destruct (Hzc p Hp) as [h [Hh [E1 E2]]]. rewrite E2. rewrite E1 in Hz. specialize (Hx h Hh). unfold sat in Hx.
    set (z := dot (fst h) d) in *. set (s := snd h - dot (fst h) x). assert (0 <= s) by (unfold s; lra).
    set (c := s / z). assert (Ec : c * z == s) by (unfold c; field; lra).
    destruct (Qlt_le_dec 0 c) as [L|L]; [exfalso; nra|exact L]. }
  assert (Tmax : 0 <= tmax).
  { apply in_map_iff in Mn2. destruct Mn2 as [p [<- Hp]]. apply filter_In in Hp. destruct Hp as [Hp Hz]. apply Qltb_lt in Hz.
    destruct (Hzc p Hp) as [h [Hh [E1 E2]]]. rewrite E2. rewrite E1 in Hz. specialize (Hx h Hh). unfold sat in Hx.
    set (z := dot (fst h) d) in *. set (s := snd h - dot (fst h) x). assert (0 <= s) by (unfold s; lra).
    set (c := s / z). assert (Ec : c * z == s) by (unfold c; field; lra).
    destruct (Qlt_le_dec c 0) as [L|L]; [exfalso; nra|exact L]. }
  set (t := tmin + (tmax - tmin) * u).
  assert (Ht : tmin <= t /\ t <= tmax) by (unfold t; split; nra).
  intros h Hh. unfold sat.
  rewrite (dot_map2_affine (fun xi di => xi + t * di) 1 t) by (try exact Hl; intros; ring).
  specialize (Hx h Hh). unfold sat in Hx. set (z := dot (fst h) d). set (s := snd h - dot (fst h) x).
  assert (Hs : 0 <= s) by (unfold s; lra).
  assert (Hin : In (z, s / z) zc). { unfold zc, hr_params. apply in_map_iff. exists h. split; [reflexivity|exact Hh]. }
  assert (goal : t * z <= s); [|unfold s in goal; lra].
  destruct (Qlt_le_dec z 0) as [Zn|Zn].
  - assert (Hc : s / z <= tmin).
    { apply Mx1. apply in_map_iff. exists (z, s / z). split; [reflexivity|]. apply filter_In. split; [exact Hin|]. apply Qltb_lt. exact Zn. }
    set (c := s / z) in *. assert (Ec : c * z == s) by (unfold c; field; lra). nra.
  - destruct (Qlt_le_dec 0 z) as [Zp|Zp].
    + assert (Hc : tmax <= s / z).
      { apply Mn1. apply in_map_iff. exists (z, s / z). split; [reflexivity|]. apply filter_In. split; [exact Hin|]. apply Qltb_lt. exact Zp. }
      set (c := s / z) in *. assert (Ec : c * z == s) by (unfold c; field; lra). nra.
    + assert (z == 0) by lra. nra.
Qed.

Definition hr_draws_ok (n : nat) (draws : list (point * Q * nat)) : Prop :=
  Forall (fun zur => length (fst (fst zur)) = n /\ unit_interval (snd (fst zur))) draws.

Lemma hr_loop_inside hs runup n : forall draws it x mean pts out,
  hr_draws_ok n draws -> length x = n -> length mean = n -> Forall (fun p => length p = n) pts ->
  sat_all hs x -> Forall (sat_all hs) pts ->
  hr_loop hs runup it x mean pts draws = Some out -> Forall (sat_all hs) out.
Proof.
  induction draws as [|[[z u] r] draws IH]; intros it x mean pts out Hd Hx Hm Hp Sx Sp; simpl.
  - intros E. injection E as <-. exact Sp.
  - inversion Hd as [|? ? [Hz Hu] Hd']; subst. simpl in Hz, Hu.
    set (d := if Nat.ltb it runup then z else let w := map2 Qminus (nth r pts []) mean in if is_zero_vec w then z else w).
    assert (Hdl : length d = length x).
    { unfold d. destruct (Nat.ltb it runup); [lia|]. cbv zeta.
      destruct (is_zero_vec (map2 Qminus (nth r pts []) mean)) eqn:Ez; [lia|].
      destruct (Nat.lt_ge_cases r (length pts)) as [L|L].
      - rewrite map2_length; rewrite Forall_forall in Hp; rewrite (Hp (nth r pts [])) by (apply nth_In; exact L); lia.
      - rewrite nth_overflow in Ez by exact L. simpl in Ez. discriminate. }
    destruct (hr_step hs x d u) as [x'|] eqn:Es; [|discriminate].
    pose proof (hitandrun_step_inside hs x d u x' Sx Hu (eq_sym Hdl) Es) as Sx'.
    assert (Hx' : length x' = length x).
    { unfold hr_step in Es. destruct (max_list _); [|discriminate]. destruct (min_list _); [|discriminate].
      injection Es as <-. apply map2_length. lia. }
    apply IH; try assumption; try lia.
    + rewrite map2_length; lia.
    + apply Forall_app. split; [exact Hp|]. constructor; [lia|constructor].
    + apply Forall_app. split; [exact Sp|]. constructor; [exact Sx'|constructor].
Qed.

Theorem hitandrun_inside hs dim num x0 draws out :
  hr_draws_ok dim draws -> length x0 = dim -> sat_all hs x0 -> hitandrun hs dim num x0 draws = Some out ->
  Forall (sat_all hs) out.
Proof.
  intros Hd Hx Sx. unfold hitandrun.
  destruct (hr_loop hs (10 * (dim + 1)) 0 x0 (repeat 0 dim) [] (firstn (10 * (dim + 1) + 25 * (dim + 1) + num) draws)) as [pts|] eqn:E; [|discriminate].
  intros E'. injection E' as <-.
  assert (F : Forall (sat_all hs) pts).
  { apply (hr_loop_inside hs _ dim _ _ _ _ _ pts) in E; try assumption; try constructor; [|apply repeat_length].
    unfold hr_draws_ok in *. apply Forall_forall. intros q Hq. rewrite Forall_forall in Hd. apply Hd. apply (firstn_In _ draws _ Hq). }
  apply Forall_forall. intros p Hp. rewrite Forall_forall in F. apply F.
  rewrite <- (firstn_skipn (25 * (dim + 1) + 10 * (dim + 1)) pts). apply in_or_app. right. exact Hp.
Qed.

(* rejection sampling padded by hit-and-run: every returned point satisfies every row *)
Theorem rejection_with_padding_feasible hs dim num bsz budget blocks x0 draws out ok :
  hr_draws_ok dim draws -> length x0 = dim -> sat_all hs x0 ->
  rejection_with_padding hs dim num bsz budget blocks x0 draws = Some (out, ok) -> Forall (sat_all hs) out.
Proof.
  intros Hd Hx Sx. unfold rejection_with_padding.
  pose proof (rejection_outputs_feasible hs num bsz budget blocks (fun _ => True) (fun _ _ _ _ => I)) as R. cbv zeta in R.
  destruct (rejection_sampling hs num bsz budget blocks) as [pts ok']. simpl in R. destruct R as [R _].
  assert (Fp : Forall (sat_all hs) pts). { apply Forall_forall. intros p Hp. rewrite Forall_forall in R. apply (R p Hp). }
  destruct (negb ok' && Nat.ltb 0 num).
  - destruct (hitandrun hs dim (num - length pts) x0 draws) as [more|] eqn:E; [|discriminate].
    intros E'. injection E' as <- _. apply Forall_app. split; [exact Fp|].
    apply (hitandrun_inside hs dim _ x0 draws more Hd Hx Sx E).
  - intros E'. injection E' as <- _. exact Fp.
Qed.

(* ------------------------------------------------------------------ grid *)
Lemma linspace_in_range lo hi k : lo <= hi -> Forall (fun a => lo <= a <= hi) (linspace lo hi k).
Proof.
  intros H. destruct k as [|[|k']]; [constructor|repeat constructor; lra|]. unfold linspace.
  apply Forall_forall. intros a Ha. apply in_map_iff in Ha. destruct Ha as [i [<- Hi]]. apply in_seq in Hi.
  assert (HK : 0 < inject_Z (Z.of_nat (S k'))). { change 0 with (inject_Z 0). rewrite <- Zlt_Qlt. lia. }
  assert (HI : 0 <= inject_Z (Z.of_nat i)). { change 0 with (inject_Z 0). rewrite <- Zle_Qle. lia. }
  assert (HIK : inject_Z (Z.of_nat i) <= inject_Z (Z.of_nat (S k'))). { rewrite <- Zle_Qle. lia. }
  set (K := inject_Z (Z.of_nat (S k'))) in *. set (I := inject_Z (Z.of_nat i)) in *.
  set (s := (hi - lo) / K). assert (Es : s * K == hi - lo) by (unfold s; field; lra).
  assert (0 <= s) by nra. split; nra.
Qed.

Lemma product_in_box : forall bs axes, Forall2 (fun b ax => Forall (fun a => fst b <= a <= snd b) ax) bs axes ->
  Forall (in_box bs) (product axes).
Proof.
  induction 1 as [|b ax bs axes Hax _ IH]; simpl.
  - repeat constructor.
  - apply Forall_forall. intros p Hp. apply in_flat_map in Hp. destruct Hp as [a [Ha Hp]].
    apply in_map_iff in Hp. destruct Hp as [q [<- Hq]]. rewrite Forall_forall in Hax, IH.
    constructor; [apply Hax, Ha|apply IH, Hq].
Qed.

Lemma axes_in_range : forall bs ks, length ks = length bs -> ordered_bounds bs ->
  Forall2 (fun b ax => Forall (fun a => fst b <= a <= snd b) ax) bs (map2 (fun b k => linspace (fst b) (snd b) k) bs ks).
Proof.
  induction bs as [|b bs IH]; intros [|k ks] Hl Hb; simpl in Hl; try discriminate.
  - constructor.
  - simpl. constructor; [apply linspace_in_range, Hb; left; reflexivity|].
    apply IH; [lia|intros b' Hin; apply Hb; right; exact Hin].
Qed.

Theorem grid_in_box bs ppd : ordered_bounds bs -> (length ppd = length bs \/ length ppd = 1%nat) ->
  Forall (in_box bs) (grid_points ppd bs).
Proof.
  intros Hb Hl. unfold grid_points. destruct ppd as [|k0 ppd0]; [constructor|].
  destruct (existsb (Nat.eqb 0) (k0 :: ppd0)); [constructor|].
  apply product_in_box. apply axes_in_range; [|exact Hb].
  destruct ppd0; [apply repeat_length|]. destruct Hl as [Hl|Hl]; [exact Hl|simpl in Hl; lia].
Qed.
