(* Proofs about Model.ParallelEI (Monte-Carlo parallel expected improvement, C05). *)
From Coq Require Import List QArith Bool Arith Lia Lra Psatz.
From LV Require Import Model.ParallelEI.
Import ListNotations.
Open Scope Q_scope.

Notation dset := (@nil Q, @nil (list Q)).

(* ------------------------------------------------------------------ lists *)

Lemma map2_map_same {A B C D} (f : B -> C -> D) (F : A -> B) (G : A -> C) (l : list A) :
  map2 f (map F l) (map G l) = map (fun x => f (F x) (G x)) l.
Proof. induction l as [|x l IH]; [reflexivity|]. cbn [map map2]. rewrite IH. reflexivity. Qed.

Lemma map2_length {A B C} (f : A -> B -> C) : forall a b, length (map2 f a b) = Nat.min (length a) (length b).
Proof. induction a as [|x a IH]; intros [|y b]; cbn [map2 length]; try reflexivity. rewrite IH. reflexivity. Qed.

Lemma nth_map_lt {A B} (g : A -> B) (l : list A) (k : nat) (d : B) (d' : A) :
  (k < length l)%nat -> nth k (map g l) d = g (nth k l d').
Proof.
  intros H. rewrite (nth_indep (map g l) d (g d')); [|rewrite map_length; exact H]. apply map_nth.
Qed.

Lemma nth_map_seq {B} (g : nat -> B) (s n k : nat) (d : B) : (k < n)%nat -> nth k (map g (seq s n)) d = g (s + k)%nat.
Proof.
  intros H. rewrite (nth_map_lt g (seq s n) k d O); [|rewrite seq_length; exact H]. rewrite seq_nth; [reflexivity|exact H].
Qed.

Lemma map_nth_seq {A B} (f : A -> B) (d : A) : forall (l : list A) (s : nat),
  map (fun i => f (nth (i - s) l d)) (seq s (length l)) = map f l.
Proof.
  induction l as [|x l IH]; intros s; [reflexivity|]. cbn [length seq map]. rewrite Nat.sub_diag. cbn [nth]. f_equal.
  rewrite <- (IH (S s)). apply map_ext_in. intros i Hi. apply in_seq in Hi.
  replace (i - s)%nat with (S (i - S s)) by lia. reflexivity.
Qed.

Lemma map_nth_seq0 {A B} (f : A -> B) (d : A) (l : list A) : map (fun i => f (nth i l d)) (seq 0 (length l)) = map f l.
Proof.
  rewrite <- (map_nth_seq f d l 0). apply map_ext. intros i. rewrite Nat.sub_0_r. reflexivity.
Qed.

Lemma map2_map_seq_r {B C D} (f : B -> C -> D) (F : nat -> B) (l : list C) (d : C) : forall s,
  map2 f (map F (seq s (length l))) l = map (fun j => f (F j) (nth (j - s) l d)) (seq s (length l)).
Proof.
  induction l as [|x l IH]; intros s; [reflexivity|]. cbn [length seq map map2]. rewrite Nat.sub_diag. cbn [nth]. f_equal.
  rewrite IH. apply map_ext_in. intros i Hi. apply in_seq in Hi. replace (i - s)%nat with (S (i - S s)) by lia. reflexivity.
Qed.

Lemma firstn_seq' : forall n s len, firstn n (seq s (n + len)) = seq s n.
Proof. induction n as [|n IH]; intros s len; [reflexivity|]. cbn [plus seq firstn]. rewrite IH. reflexivity. Qed.

Lemma skipn_seq' : forall n s len, skipn n (seq s (n + len)) = seq (s + n) len.
Proof.
  induction n as [|n IH]; intros s len; [rewrite Nat.add_0_r; reflexivity|]. cbn [plus seq skipn]. rewrite IH. f_equal. lia.
Qed.

Lemma firstn_app_exact {A} (a b : list A) : firstn (length a) (a ++ b) = a.
Proof. induction a as [|x a IH]; [reflexivity|]. cbn [length app firstn]. rewrite IH. reflexivity. Qed.

Lemma skipn_app_exact {A} (a b : list A) : skipn (length a) (a ++ b) = b.
Proof. induction a as [|x a IH]; [reflexivity|]. cbn [length app skipn]. exact IH. Qed.

Lemma firstn_app_len {A} (a b : list A) n : length a = n -> firstn n (a ++ b) = a.
Proof. intros <-. apply firstn_app_exact. Qed.

Lemma skipn_app_len {A} (a b : list A) n : length a = n -> skipn n (a ++ b) = b.
Proof. intros <-. apply skipn_app_exact. Qed.

Lemma skipn_add {A} : forall (a b : nat) (l : list A), skipn (a + b) l = skipn b (skipn a l).
Proof.
  induction a as [|a IH]; intros b l; [reflexivity|]. destruct l as [|x l]; [cbn; destruct b; reflexivity|]. cbn [plus skipn]. apply IH.
Qed.

Lemma nth_firstn_lt {A} (d : A) : forall (n i : nat) (l : list A), (i < n)%nat -> nth i (firstn n l) d = nth i l d.
Proof.
  induction n as [|n IH]; intros i l H; [lia|]. destruct l as [|x l]; [reflexivity|]. destruct i as [|i]; [reflexivity|].
  cbn [firstn nth]. apply IH. lia.
Qed.

Lemma nth_skipn' {A} (d : A) : forall (n i : nat) (l : list A), nth i (skipn n l) d = nth (n + i) l d.
Proof.
  induction n as [|n IH]; intros i l; [reflexivity|]. destruct l as [|x l]; [cbn; destruct i; reflexivity|]. cbn [skipn plus nth]. apply IH.
Qed.

Lemma firstn_firstn_le {A} : forall (a b : nat) (l : list A), (a <= b)%nat -> firstn a (firstn b l) = firstn a l.
Proof. intros a b l H. rewrite firstn_firstn. rewrite Nat.min_l by exact H. reflexivity. Qed.

(* ------------------------------------------------------------------ rows (reshape) *)

Lemma rows_length w : forall r v, length (rows w r v) = r.
Proof. induction r as [|r IH]; intros v; [reflexivity|]. cbn [rows length]. rewrite IH. reflexivity. Qed.

Lemma rows_add w : forall r1 r2 v, rows w (r1 + r2) v = rows w r1 v ++ rows w r2 (skipn (r1 * w) v).
Proof.
  induction r1 as [|r1 IH]; intros r2 v; [reflexivity|]. cbn [plus rows app]. rewrite IH. do 2 f_equal.
  replace (S r1 * w)%nat with (w + r1 * w)%nat by reflexivity. rewrite skipn_add. reflexivity.
Qed.

Lemma skipn_firstn_add {A} : forall (a b : nat) (l : list A), skipn a (firstn (a + b) l) = firstn b (skipn a l).
Proof.
  induction a as [|a IH]; intros b l; [reflexivity|]. destruct l as [|x l]; [cbn; destruct b; reflexivity|].
  cbn [plus firstn skipn]. apply IH.
Qed.

Lemma rows_firstn w : forall r v, rows w r (firstn (r * w) v) = rows w r v.
Proof.
  induction r as [|r IH]; intros v; [reflexivity|]. cbn [rows]. replace (S r * w)%nat with (w + r * w)%nat by reflexivity.
  rewrite firstn_firstn_le by lia. f_equal. rewrite skipn_firstn_add. apply IH.
Qed.

Lemma rows_concat (q : nat) : forall (ms : list vec), (forall m, In m ms -> length m = q) -> rows q (length ms) (concat ms) = ms.
Proof.
  induction ms as [|m ms IH]; intros H; [reflexivity|]. cbn [length concat rows].
  assert (Hm : length m = q) by (apply H; left; reflexivity). rewrite <- Hm.
  rewrite firstn_app_exact, skipn_app_exact. rewrite Hm. rewrite IH; [reflexivity|]. intros m' Hm'. apply H. right. exact Hm'.
Qed.

(* ------------------------------------------------------------------ sums, max, min *)

Lemma sumQ_app a b : sumQ (a ++ b) == sumQ a + sumQ b.
Proof. unfold sumQ. induction a as [|x a IH]; cbn [app fold_right]; [ring|]. rewrite IH. ring. Qed.

Lemma sumQ_map_ext {A} (f g : A -> Q) (l : list A) : (forall x, In x l -> f x == g x) -> sumQ (map f l) == sumQ (map g l).
Proof.
  unfold sumQ. induction l as [|x l IH]; intros H; [reflexivity|]. cbn [map fold_right].
  rewrite IH; [|intros y Hy; apply H; right; exact Hy]. rewrite (H x); [reflexivity|left; reflexivity].
Qed.

Lemma sumQ_nonneg l : Forall (fun x => 0 <= x) l -> 0 <= sumQ l.
Proof.
  unfold sumQ. induction 1 as [|x l Hx _ IH]; cbn [fold_right]; lra.
Qed.

Lemma qmax0_nonneg x : 0 <= qmax 0 x.
Proof. unfold qmax. destruct (Qle_bool 0 x) eqn:E; [apply Qle_bool_iff in E; exact E|lra]. Qed.

Lemma qmax_qmin_dual best a a' x x' : a == best - a' -> x == best - x' -> qmax a x == best - qmin a' x'.
Proof.
  intros Ha Hx. unfold qmax, qmin.
  destruct (Qle_bool a x) eqn:E1; destruct (Qle_bool a' x') eqn:E2.
  - apply Qle_bool_iff in E1. apply Qle_bool_iff in E2. lra.
  - exact Hx.
  - exact Ha.
  - assert (~ a <= x) by (rewrite <- Qle_bool_iff; congruence). assert (~ a' <= x') by (rewrite <- Qle_bool_iff; congruence). lra.
Qed.

Lemma qmax0_compat x y : x == y -> qmax 0 x == qmax 0 y.
Proof.
  intros H. unfold qmax. destruct (Qle_bool 0 x) eqn:E1; destruct (Qle_bool 0 y) eqn:E2; try lra.
  - apply Qle_bool_iff in E1. assert (~ 0 <= y) by (rewrite <- Qle_bool_iff; congruence). lra.
  - apply Qle_bool_iff in E2. assert (~ 0 <= x) by (rewrite <- Qle_bool_iff; congruence). lra.
Qed.

(* max_j (a_j + (best - m_j)) = best - min_j (m_j - a_j) on a non-empty index list *)
Lemma amax_amin_dual {A} (best : Q) (a m : A -> Q) : forall js : list A, js <> [] ->
  amax (map (fun j => a j + (best - m j)) js) == best - amin (map (fun j => m j - a j) js).
Proof.
  induction js as [|j js IH]; intros H; [congruence|]. destruct js as [|j' js].
  - cbn [map amax amin]. ring.
  - change (qmax (a j + (best - m j)) (amax (map (fun j => a j + (best - m j)) (j' :: js)))
            == best - qmin (m j - a j) (amin (map (fun j => m j - a j) (j' :: js)))).
    apply qmax_qmin_dual; [ring|]. apply IH. congruence.
Qed.

(* ------------------------------------------------------------------ one pass of the loop, as a function of the candidate set *)

(* the contribution of one draw z to candidate set s *)
Definition gain (c : nat) (s : cset) (mp : vec) (best : Q) (z : vec) : Q :=
  qmax 0 (amax (map (fun j => Lz c (snd s) z j + (best - nth j (fst s ++ mp) 0)) (seq 0 c))).

Lemma gain_improvement c s mp best z : (0 < c)%nat -> gain c s mp best z == improvement best (sample c (fst s ++ mp) (snd s) z).
Proof.
  intros Hc. unfold gain, improvement, sample. apply qmax0_compat.
  apply (amax_amin_dual best (fun j => Lz c (snd s) z j) (fun j => nth j (fst s ++ mp) 0)).
  destruct c; [lia|]. cbn [seq]. congruence.
Qed.

Lemma tensordot_chol c sets normals :
  tensordot c (length sets) (chol_tensor c sets) normals =
  map (fun j => map (fun k => map (fun z => Lz c (snd (nth k sets dset)) z j) normals) (seq 0 (length sets))) (seq 0 c).
Proof.
  unfold tensordot, chol_tensor. rewrite map_map. apply map_ext_in. intros j Hj. apply map_ext_in. intros k Hk.
  apply map_ext. intros z. unfold Lz. f_equal. apply map_ext_in. intros l Hl. f_equal.
  apply in_seq in Hl. apply in_seq in Hk. unfold entry at 1.
  rewrite (nth_map_seq _ 0 c l []) by lia. cbn [plus].
  rewrite (nth_map_lt _ sets k 0 dset) by lia. reflexivity.
Qed.

Lemma mean_to_evaluate_eq q sets : (forall s, In s sets -> length (fst s) = q) ->
  mean_to_evaluate q sets = map (fun j => map (fun k => nth j (fst (nth k sets dset)) 0) (seq 0 (length sets))) (seq 0 q).
Proof.
  intros Hwf. unfold mean_to_evaluate, mean_flat, transpose.
  assert (Hr : rows q (length sets) (concat (map fst sets)) = map fst sets).
  { rewrite <- (map_length fst sets). apply rows_concat.
    intros m Hm. apply in_map_iff in Hm. destruct Hm as (s & <- & Hs). apply Hwf. exact Hs. }
  rewrite Hr. apply map_ext. intros j. rewrite map_map. symmetry. apply (map_nth_seq0 (fun s => nth j (fst s) 0) dset sets).
Qed.

Definition pp_final (c : nat) (sets : list cset) (mp : vec) (best : Q) (normals : mat) : list mat :=
  map (fun j => map (fun k => map (fun z => Lz c (snd (nth k sets dset)) z j + (best - nth j (fst (nth k sets dset) ++ mp) 0)) normals)
                    (seq 0 (length sets))) (seq 0 c).

Lemma posterior_predictions_eq q sets mp best normals : (forall s, In s sets -> length (fst s) = q) ->
  let c := (q + length mp)%nat in
  (if (length mp =? 0)%nat then add_first q (tensordot c (length sets) (chol_tensor c sets) normals) best (mean_to_evaluate q sets)
   else add_last (length mp) (add_first q (tensordot c (length sets) (chol_tensor c sets) normals) best (mean_to_evaluate q sets)) best mp)
  = pp_final c sets mp best normals.
Proof.
  intros Hwf c. rewrite tensordot_chol. rewrite (mean_to_evaluate_eq q sets Hwf).
  set (F := fun j => map (fun k => map (fun z => Lz c (snd (nth k sets dset)) z j) normals) (seq 0 (length sets))).
  set (G := fun j => map (fun k => nth j (fst (nth k sets dset)) 0) (seq 0 (length sets))).
  set (H := fun j => map (fun k => map (fun z => Lz c (snd (nth k sets dset)) z j + (best - nth j (fst (nth k sets dset) ++ mp) 0)) normals)
                         (seq 0 (length sets))).
  (* the first q rows *)
  assert (Hfirst : add_first q (map F (seq 0 c)) best (map G (seq 0 q)) = map H (seq 0 q) ++ map F (seq q (length mp))).
  { unfold add_first. rewrite firstn_map, skipn_map. unfold c. rewrite firstn_seq', skipn_seq'. cbn [plus]. f_equal.
    rewrite map2_map_same. apply map_ext_in. intros j Hj. apply in_seq in Hj. unfold F, G, H.
    rewrite map2_map_same. apply map_ext_in. intros k Hk. apply in_seq in Hk. cbv beta. rewrite map_map. apply map_ext. intros z.
    rewrite app_nth1; [reflexivity|].
    rewrite (Hwf (nth k sets dset)); [lia|]. apply nth_In. lia. }
  rewrite Hfirst. unfold pp_final. fold H.
  destruct (length mp =? 0)%nat eqn:Ep.
  - apply Nat.eqb_eq in Ep. unfold c. rewrite Ep. rewrite Nat.add_0_r. cbn [seq map]. apply app_nil_r.
  - unfold add_last. rewrite app_length, !map_length, !seq_length.
    replace (q + length mp - length mp)%nat with q by lia.
    assert (Hlq : length (map H (seq 0 q)) = q) by (rewrite map_length, seq_length; reflexivity).
    rewrite (firstn_app_len _ _ _ Hlq), (skipn_app_len _ _ _ Hlq).
    unfold c. rewrite seq_app, map_app. cbn [plus]. f_equal.
    rewrite (map2_map_seq_r _ F mp 0 q). apply map_ext_in. intros j Hj. apply in_seq in Hj.
    unfold F, H. rewrite map_map. apply map_ext_in. intros k Hk. apply in_seq in Hk. rewrite map_map. apply map_ext. intros z.
    rewrite app_nth2; rewrite (Hwf (nth k sets dset)) by (apply nth_In; lia); [reflexivity|lia].
Qed.

Lemma block_contribution_eq q sets mp best normals : (forall s, In s sets -> length (fst s) = q) ->
  block_contribution q sets mp best normals =
  map (fun k => sumQ (map (gain (q + length mp) (nth k sets dset) mp best) normals)) (seq 0 (length sets)).
Proof.
  intros Hwf. unfold block_contribution. rewrite (posterior_predictions_eq q sets mp best normals Hwf).
  unfold amax0. rewrite map_map. apply map_ext_in. intros k Hk. apply in_seq in Hk. f_equal. rewrite map_map.
  rewrite <- (map_nth_seq0 (gain (q + length mp) (nth k sets dset) mp best) [] normals).
  apply map_ext_in. intros i Hi. apply in_seq in Hi. unfold gain. f_equal. f_equal.
  unfold pp_final. rewrite map_map. apply map_ext. intros j. unfold entry.
  rewrite (nth_map_seq _ 0 (length sets) k []) by lia. cbn [plus].
  rewrite (nth_map_lt _ normals i 0 []) by lia. reflexivity.
Qed.

(* ------------------------------------------------------------------ the loop *)

Lemma mc_loop_spec (contrib : mat -> vec) (g : nat -> vec -> Q) (n N b c : nat) :
  (forall normals, contrib normals = map (fun k => sumQ (map (g k) normals)) (seq 0 n)) ->
  forall fuel executed stream (A : nat -> Q),
  let t := passes N b fuel executed in
  snd (mc_loop contrib N b c fuel executed stream (map A (seq 0 n))) = (executed + t * b)%nat /\
  exists A' : nat -> Q,
    fst (mc_loop contrib N b c fuel executed stream (map A (seq 0 n))) = map A' (seq 0 n) /\
    forall k, A' k == A k + sumQ (map (g k) (rows c (t * b) stream)).
Proof.
  intros Hc. induction fuel as [|fuel IH]; intros executed stream A; cbn [mc_loop passes].
  - split; [cbn; lia|]. exists A. split; [reflexivity|]. intros k. cbn. ring.
  - destruct (executed <? N)%nat.
    + rewrite Hc. rewrite map2_map_same.
      specialize (IH (executed + b)%nat (skipn (b * c) stream)
                     (fun k => A k + sumQ (map (g k) (rows c b (firstn (b * c) stream))))).
      cbv zeta in IH. destruct IH as (IH1 & A' & IH2 & IH3). split.
      * rewrite IH1. cbn [mult]. lia.
      * exists A'. split; [exact IH2|]. intros k. rewrite IH3. rewrite rows_firstn.
        replace (S (passes N b fuel (executed + b)) * b)%nat with (b + passes N b fuel (executed + b) * b)%nat by reflexivity.
        rewrite rows_add, map_app, sumQ_app. ring.
    + split; [cbn; lia|]. exists A. split; [reflexivity|]. intros k. cbn. ring.
Qed.

Lemma repeat_map_seq {A} (x : A) n : repeat x n = map (fun _ => x) (seq 0 n).
Proof.
  generalize 0%nat. induction n as [|n IH]; intros s; [reflexivity|]. cbn [repeat seq map]. rewrite <- IH. reflexivity.
Qed.

(* the draws executed by one call, and their number *)
Lemma executed_draws_length N B c stream : length (executed_draws N B c stream) = n_exec N B.
Proof. apply rows_length. Qed.

Lemma passes_bounds N b : (0 < b)%nat -> forall fuel executed, (N <= executed + fuel)%nat ->
  let e := (executed + passes N b fuel executed * b)%nat in
  (N <= e)%nat /\ ((executed < N)%nat -> (e < N + b)%nat) /\ ((N <= executed)%nat -> e = executed).
Proof.
  intros Hb. induction fuel as [|fuel IH]; intros executed Hf; cbn [passes].
  - cbn. repeat split; lia.
  - destruct (Nat.ltb_spec executed N) as [Hlt|Hge].
    + specialize (IH (executed + b)%nat). cbv zeta in IH. destruct IH as (I1 & I2 & I3); [lia|]. cbn [mult].
      split; [lia|]. split; [|lia]. intros _.
      destruct (Nat.lt_ge_cases (executed + b) N) as [H|H]; [specialize (I2 H); lia|specialize (I3 H); lia].
    + cbn. repeat split; lia.
Qed.

(* the number of executed draws is the least multiple of the block size min(B, N) that reaches N *)
Theorem n_exec_spec N B : (0 < N)%nat -> (0 < B)%nat ->
  let b := Nat.min B N in
  (N <= n_exec N B)%nat /\ (n_exec N B < N + b)%nat /\ exists t, n_exec N B = (t * b)%nat.
Proof.
  intros HN HB b. unfold n_exec. fold b.
  assert (Hb : (0 < b)%nat) by (unfold b; lia).
  destruct (passes_bounds N b Hb N 0%nat) as (H1 & H2 & _); [lia|]. cbn [plus] in H1, H2.
  repeat split; [exact H1|apply H2; exact HN|]. exists (passes N b N 0). reflexivity.
Qed.

(* the executed draws are the first n_exec rows of the stream, cut every c entries: concatenated they are a prefix of it *)
Lemma rows_concat_prefix c : forall r v, (r * c <= length v)%nat ->
  concat (rows c r v) = firstn (r * c) v /\ Forall (fun z => length z = c) (rows c r v).
Proof.
  induction r as [|r IH]; intros v H; [split; [reflexivity|constructor]|]. cbn [rows concat].
  replace (S r * c)%nat with (c + r * c)%nat in * by reflexivity.
  destruct (IH (skipn c v)) as (I1 & I2); [rewrite skipn_length; lia|]. split.
  - rewrite I1. rewrite <- (firstn_skipn c v) at 3. rewrite firstn_app, firstn_length, Nat.min_l by lia.
    rewrite firstn_firstn. replace (Nat.min (c + r * c) c) with c by lia.
    replace (c + r * c - c)%nat with (r * c)%nat by lia. reflexivity.
  - constructor; [rewrite firstn_length; lia|exact I2].
Qed.

Theorem executed_draws_spec N B c stream : (n_exec N B * c <= length stream)%nat ->
  length (executed_draws N B c stream) = n_exec N B /\
  Forall (fun z => length z = c) (executed_draws N B c stream) /\
  concat (executed_draws N B c stream) = firstn (n_exec N B * c) stream.
Proof.
  intros H. destruct (rows_concat_prefix c (n_exec N B) stream H) as (H1 & H2).
  split; [apply executed_draws_length|]. split; assumption.
Qed.

(* ------------------------------------------------------------------ the call *)

Lemma qei_eq q sets mp best N B stream : (forall s, In s sets -> length (fst s) = q) ->
  exists A' : nat -> Q,
    qei q sets mp best N B stream = map (fun k => A' k / ofnat (n_exec N B)) (seq 0 (length sets)) /\
    forall k, A' k == sumQ (map (gain (q + length mp) (nth k sets dset) mp best) (executed_draws N B (q + length mp) stream)).
Proof.
  intros Hwf. unfold qei. rewrite repeat_map_seq.
  destruct (mc_loop_spec (block_contribution q sets mp best)
              (fun k => gain (q + length mp) (nth k sets dset) mp best) (length sets) N (Nat.min B N) (q + length mp)
              (fun normals => block_contribution_eq q sets mp best normals Hwf) N 0%nat stream (fun _ => 0))
    as (H1 & A' & H2 & H3).
  destruct (mc_loop _ _ _ _ _ _ _ _) as (result, executed). cbn [fst snd] in H1, H2.
  exists A'. split.
  - rewrite H2, map_map, H1. reflexivity.
  - intros k. rewrite H3. unfold executed_draws, n_exec. ring.
Qed.

Lemma qei_length q sets mp best N B stream : length (qei q sets mp best N B stream) = length sets.
Proof.
  unfold qei.
  assert (H : forall fuel executed str result, length result = length sets ->
            length (fst (mc_loop (block_contribution q sets mp best) N (Nat.min B N) (q + length mp) fuel executed str result)) = length sets).
  { induction fuel as [|fuel IH]; intros executed str result Hr; cbn [mc_loop]; [exact Hr|].
    destruct (executed <? N)%nat; [|exact Hr]. apply IH. rewrite map2_length, Hr.
    unfold block_contribution, amax0. rewrite !map_length, seq_length. lia. }
  specialize (H N 0%nat stream (repeat 0 (length sets)) (repeat_length _ _)).
  destruct (mc_loop _ _ _ _ _ _ _ _) as (result, executed). cbn [fst] in H. rewrite map_length. exact H.
Qed.

Lemma ofnat_nonneg n : 0 <= ofnat n.
Proof. unfold ofnat. change 0 with (inject_Z 0). rewrite <- Zle_Qle. lia. Qed.

Lemma div_nonneg a b : 0 <= a -> 0 <= b -> 0 <= a / b.
Proof.
  intros Ha Hb. destruct (Qeq_dec b 0) as [E|E].
  - unfold Qdiv. rewrite E. setoid_replace (/ 0) with 0 by reflexivity. lra.
  - apply Qle_shift_div_l; lra.
Qed.

Lemma map2_plus_nonneg : forall a b, Forall (fun x => 0 <= x) a -> Forall (fun x => 0 <= x) b -> Forall (fun x => 0 <= x) (map2 Qplus a b).
Proof.
  induction a as [|x a IH]; intros b Ha Hb; [constructor|]. destruct b as [|y b]; [constructor|]. cbn [map2].
  inversion Ha; subst. inversion Hb; subst. constructor; [lra|]. apply IH; assumption.
Qed.

(* (b) every estimate is non-negative: nothing is required of the shapes *)
Theorem qei_nonneg q sets mp best N B stream : Forall (fun e => 0 <= e) (qei q sets mp best N B stream).
Proof.
  unfold qei.
  assert (H : forall fuel executed str result, Forall (fun x => 0 <= x) result ->
            Forall (fun x => 0 <= x) (fst (mc_loop (block_contribution q sets mp best) N (Nat.min B N) (q + length mp) fuel executed str result))).
  { induction fuel as [|fuel IH]; intros executed str result Hr; cbn [mc_loop]; [exact Hr|].
    destruct (executed <? N)%nat; [|exact Hr]. apply IH. apply map2_plus_nonneg; [exact Hr|].
    unfold block_contribution. apply Forall_forall. intros x Hx. apply in_map_iff in Hx. destruct Hx as (row & <- & _).
    apply sumQ_nonneg. apply Forall_forall. intros y Hy. apply in_map_iff in Hy. destruct Hy as (v & <- & _). apply qmax0_nonneg. }
  specialize (H N 0%nat stream (repeat 0 (length sets))).
  destruct (mc_loop _ _ _ _ _ _ _ _) as (result, executed). cbn [fst] in H.
  apply Forall_forall. intros e He. apply in_map_iff in He. destruct He as (r & <- & Hr).
  apply div_nonneg; [|apply ofnat_nonneg].
  assert (Hz : Forall (fun x => 0 <= x) (repeat 0 (length sets))) by (apply Forall_forall; intros x Hx; apply repeat_spec in Hx; subst; lra).
  specialize (H Hz). rewrite Forall_forall in H. apply H. exact Hr.
Qed.

(* (a) the estimate of candidate set k is the arithmetic mean, over the executed draws z, of max(0, best - min_j y_j), y = m - L z *)
Theorem qei_estimate_is_sample_mean q sets mp best N B stream k :
  (forall s, In s sets -> length (fst s) = q) -> (0 < q + length mp)%nat -> (0 < N)%nat -> (0 < B)%nat -> (k < length sets)%nat ->
  nth k (qei q sets mp best N B stream) 0 ==
  set_estimate (q + length mp) (nth k sets dset) mp best (executed_draws N B (q + length mp) stream).
Proof.
  intros Hwf Hc _ _ Hk. destruct (qei_eq q sets mp best N B stream Hwf) as (A' & H1 & H2). rewrite H1.
  rewrite (nth_map_seq _ 0 (length sets) k 0 Hk). cbn [plus]. unfold set_estimate, mean_list.
  rewrite map_length, executed_draws_length. rewrite H2.
  apply Qdiv_comp; [|reflexivity]. apply sumQ_map_ext. intros z _. apply gain_improvement. exact Hc.
Qed.

(* (c) set independence: the estimate of a candidate set is the same in any vectorised call that contains it, at any position *)
Theorem qei_set_independent q sets sets' mp best N B stream k k' :
  (forall s, In s sets -> length (fst s) = q) -> (forall s, In s sets' -> length (fst s) = q) ->
  (0 < q + length mp)%nat -> (0 < N)%nat -> (0 < B)%nat -> (k < length sets)%nat -> (k' < length sets')%nat ->
  nth k sets dset = nth k' sets' dset ->
  nth k (qei q sets mp best N B stream) 0 == nth k' (qei q sets' mp best N B stream) 0.
Proof.
  intros Hwf Hwf' Hc HN HB Hk Hk' E.
  rewrite (qei_estimate_is_sample_mean q sets mp best N B stream k Hwf Hc HN HB Hk).
  rewrite (qei_estimate_is_sample_mean q sets' mp best N B stream k' Hwf' Hc HN HB Hk'). rewrite E. reflexivity.
Qed.

Corollary qei_set_alone q sets mp best N B stream k :
  (forall s, In s sets -> length (fst s) = q) -> (0 < q + length mp)%nat -> (0 < N)%nat -> (0 < B)%nat -> (k < length sets)%nat ->
  nth k (qei q sets mp best N B stream) 0 == nth 0 (qei q [nth k sets dset] mp best N B stream) 0.
Proof.
  intros Hwf Hc HN HB Hk.
  apply (qei_set_independent q sets [nth k sets dset] mp best N B stream k 0); try assumption.
  - intros s [<-|[]]. apply Hwf. apply nth_In. exact Hk.
  - cbn. lia.
  - reflexivity.
Qed.

(* (d) one point per set, no pending point: the mean of max(0, best - (m - l z)) *)
Theorem qei_single_point sets best N B stream k m L :
  (forall s, In s sets -> length (fst s) = 1%nat) -> (0 < N)%nat -> (0 < B)%nat -> (k < length sets)%nat ->
  nth k sets dset = ([m], L) ->
  nth k (qei 1 sets [] best N B stream) 0 ==
  mean_list (map (fun z => qmax 0 (best - (m - entry L 0 0 * nth 0 z 0))) (executed_draws N B 1 stream)).
Proof.
  intros Hwf HN HB Hk E.
  rewrite (qei_estimate_is_sample_mean 1 sets [] best N B stream k Hwf); [|cbn; lia|exact HN|exact HB|exact Hk].
  rewrite E. unfold set_estimate, mean_list. rewrite !map_length. apply Qdiv_comp; [|reflexivity].
  apply sumQ_map_ext. intros z _. unfold improvement, sample, Lz, sumQ.
  cbn [plus length seq map amin app nth fold_right fst snd]. apply qmax0_compat. ring.
Qed.

(* ------------------------------------------------------------------ the public entry point, batch by batch *)

Lemma qei_batched_nth q mp best N B bs : (0 < bs)%nat -> forall fuel sets stream k,
  (length sets <= fuel)%nat -> (k < length sets)%nat ->
  nth k (qei_batched fuel bs q sets mp best N B stream) 0 =
  nth (k mod bs) (qei q (firstn bs (skipn ((k / bs) * bs) sets)) mp best N B
                      (skipn ((k / bs) * (n_exec N B * (q + length mp))) stream)) 0.
Proof.
  intros Hbs. induction fuel as [|fuel IH]; intros sets stream k Hf Hk; [lia|].
  destruct sets as [|s sets]; [cbn in Hk; lia|]. cbn [qei_batched].
  set (ss := s :: sets) in *.
  destruct (Nat.lt_ge_cases k bs) as [Hlt|Hge].
  - rewrite app_nth1.
    + rewrite Nat.div_small, Nat.mod_small by exact Hlt. reflexivity.
    + rewrite qei_length, firstn_length. lia.
  - assert (Hl : length (qei q (firstn bs ss) mp best N B stream) = bs) by (rewrite qei_length, firstn_length; lia).
    rewrite app_nth2 by lia. rewrite Hl.
    rewrite IH.
    + assert (Hd : (k / bs = S ((k - bs) / bs))%nat).
      { replace k with ((k - bs) + 1 * bs)%nat at 1 by lia. rewrite Nat.div_add by lia. lia. }
      assert (Hm : ((k - bs) mod bs = k mod bs)%nat).
      { replace k with ((k - bs) + 1 * bs)%nat at 2 by lia. rewrite Nat.mod_add by lia. reflexivity. }
      rewrite Hm, Hd. f_equal. f_equal.
      * f_equal. replace (S ((k - bs) / bs) * bs)%nat with (bs + (k - bs) / bs * bs)%nat by reflexivity. rewrite skipn_add. reflexivity.
      * replace (S ((k - bs) / bs) * (n_exec N B * (q + length mp)))%nat
          with (n_exec N B * (q + length mp) + (k - bs) / bs * (n_exec N B * (q + length mp)))%nat by reflexivity.
        rewrite skipn_add. reflexivity.
    + rewrite skipn_length. unfold ss in *. cbn [length] in *. lia.
    + rewrite skipn_length. lia.
Qed.

(* evaluate_at_point_list(points, batch_size): the estimate of candidate set k is the estimate of that set evaluated alone on the
   draws of its own batch (the stream moved on by the draws of the batches before it) *)
Theorem qei_public_estimate batch q sets mp best N B stream k :
  (forall s, In s sets -> length (fst s) = q) -> (0 < q + length mp)%nat -> (0 < N)%nat -> (0 < B)%nat -> (k < length sets)%nat ->
  let bs := match batch with Some b0 => if (b0 =? 0)%nat then length sets else b0 | None => length sets end in
  let c := (q + length mp)%nat in
  nth k (qei_public batch q sets mp best N B stream) 0 ==
  set_estimate c (nth k sets dset) mp best (executed_draws N B c (skipn ((k / bs) * (n_exec N B * c)) stream)).
Proof.
  intros Hwf Hc HN HB Hk bs c. unfold qei_public. fold bs.
  assert (Hbs : (0 < bs)%nat).
  { unfold bs. destruct batch as [b0|]; [|lia]. destruct (Nat.eqb_spec b0 0); lia. }
  rewrite (qei_batched_nth q mp best N B bs Hbs (length sets) sets stream k (le_n _) Hk).
  set (batchsets := firstn bs (skipn (k / bs * bs) sets)).
  assert (Hdm : (k = bs * (k / bs) + k mod bs)%nat) by (apply Nat.div_mod; lia).
  assert (Hmod : (k mod bs < bs)%nat) by (apply Nat.mod_upper_bound; lia).
  assert (Hsk : (k / bs * bs + k mod bs < length sets)%nat) by lia.
  assert (Hin : forall s, In s batchsets -> In s sets).
  { intros s Hs. unfold batchsets in Hs. apply (In_nth _ _ dset) in Hs. destruct Hs as (i & Hi & <-).
    rewrite firstn_length, skipn_length in Hi. rewrite nth_firstn_lt by lia. rewrite nth_skipn'. apply nth_In. lia. }
  assert (Hlen : (k mod bs < length batchsets)%nat).
  { unfold batchsets. rewrite firstn_length, skipn_length. lia. }
  rewrite (qei_estimate_is_sample_mean q batchsets mp best N B _ (k mod bs)); try assumption.
  - unfold batchsets. rewrite nth_firstn_lt by lia. rewrite nth_skipn'.
    replace (k / bs * bs + k mod bs)%nat with k by lia. reflexivity.
  - intros s Hs. apply Hwf. apply Hin. exact Hs.
Qed.

(* (a) with the reading written out: y = m - L z, m = means of the set ++ pending means *)
Theorem qei_estimate_is_sample_mean_explicit q sets mp best N B stream k mk Lk :
  (forall s, In s sets -> length (fst s) = q) -> (0 < q + length mp)%nat -> (0 < N)%nat -> (0 < B)%nat -> (k < length sets)%nat ->
  nth k sets dset = (mk, Lk) ->
  let c := (q + length mp)%nat in
  let m := mk ++ mp in
  let y := fun z : vec => map (fun j => nth j m 0 - Lz c Lk z j) (seq 0 c) in
  let zs := executed_draws N B c stream in
  nth k (qei q sets mp best N B stream) 0 == sumQ (map (fun z => qmax 0 (best - amin (y z))) zs) / ofnat (length zs).
Proof.
  intros Hwf Hc HN HB Hk E c m y zs.
  rewrite (qei_estimate_is_sample_mean q sets mp best N B stream k Hwf Hc HN HB Hk). rewrite E.
  unfold set_estimate, mean_list. rewrite map_length. reflexivity.
Qed.
